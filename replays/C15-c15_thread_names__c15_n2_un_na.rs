// Replay of a solver counterexample for property C15, harness c15_thread_names::c15_n2_un_na
// failing checks: entry j carries the j-th named thread's id
// Run: /verif/check C15 --replay /verif/replays/C15-c15_thread_names__c15_n2_un_na.rs
// (the test is appended to the harness file in a scratch overlay of /repo and run with
//  `cargo kani playback`, dev profile and --release)
// harness: c15_thread_names::c15_n2_un_na
/// Test generated for harness `verif::c15_thread_names::c15_n2_un_na` 
///
/// Check for `assertion`: ""entry j carries the j-th named thread's id""

#[test]
fn kani_concrete_playback_c15_n2_un_na_16710981804705586760() {
    let concrete_vals: Vec<Vec<u8>> = vec![
        // 2147483647
        vec![255, 255, 255, 127],
        // 2147483647
        vec![255, 255, 255, 127],
        // 255
        vec![255],
        // 255
        vec![255],
        // 255
        vec![255],
        // 255
        vec![255],
    ];
    kani::concrete_playback_run(concrete_vals, c15_n2_un_na);
}
