PROPERTY = "C10"
ENCODED = ["dir_section::DirSection::{new,dump_dir_entry,write_to_file}", "mem_writer::{Buffer,MemoryWriter,MemoryArrayWriter}"]
BOUNDS = {"destination": "fresh 160-byte array", "cut point": "fully symbolic index into the sequence of write/seek calls (every boundary between two calls, and 'never')",
          "fault": "I/O error returned by destination call #k, k = 0..8 (one instance each: an error changes control flow, so its position is a shape); the dump aborts there",
          "operation sequences": "4 crash shapes + 9 fault instances, 2-3 streams of 0..12 bytes, with and without an auxiliary entry-less flush (app memory)"}
OUTSIDE = ["torn single writes (a write is atomic in the model)", "that each stream's referenced blobs precede the end of the stream body (that is C01's per-stream layout)",
           "the 18-stream sequence itself (driven in the dump() skeleton harnesses)"]
ASSUMPTIONS = ["a crash is modelled as the destination silently dropping every call from a symbolic index on", "stream types are non-zero"]
L = {"extend_with": 60, "ArrDest": 80}
SK = {"extend_with": 60, "ArrDest": 660, "MINIDUMP_EXCEPTION": 20, "alloc_from_array": 8}
HARNESSES = [
    H("c19_dump::g_dump_fresh", desc="generate_dump emits every directory entry together with the flush of its stream (write_to_file(Some)), never entry-only, and each entry lies inside what is flushed with it", loops={"MINIDUMP_EXCEPTION": 20, "alloc_from_array": 8}, timeout=2400, est_gb=8, mem_gb=24),
    H("c19_dump::c10_dump_crash_anywhere", desc="byte-level: the real 18-stream generate_dump + real DirSection, destination dies at a symbolic call", loops=SK, timeout=3400, est_gb=20, mem_gb=40, fs_array=1024, tier="thorough"),
    H("c09_dir_section::c10_crash_two_streams", loops=L, desc="crash anywhere in a 2-stream dump"),
    H("c09_dir_section::c10_crash_two_streams_appending", loops=L, desc="crash anywhere in a 2-stream dump appended at a symbolic offset 0..8 of the destination", timeout=1200),
    H("c09_dir_section::c10_crash_aux_flush_appending", loops=L, desc="the same with an entry-less flush between streams", timeout=1200),
    H("c09_dir_section::c10_crash_three_streams", loops=L, desc="crash anywhere in a 3-stream dump", tier="thorough"),
    H("c09_dir_section::c10_crash_aux_flush", loops=L, desc="crash anywhere, with an entry-less flush between streams"),
    H("c09_dir_section::c10_crash_empty_stream", loops=L, desc="crash anywhere, first stream empty"),
    H("c09_dir_section::c10_fault_at0", loops=L, desc="I/O error at destination call #0 of a 2-stream dump (nothing arrives)", tier="thorough",
      expect_unsat_covers=("a non-empty entry reached the destination", "an unused entry while stream bytes are present")),
    H("c09_dir_section::c10_fault_at1", loops=L, desc="I/O error at destination call #1 of a 2-stream dump"),
    H("c09_dir_section::c10_fault_at2", loops=L, desc="I/O error at destination call #2 of a 2-stream dump"),
    H("c09_dir_section::c10_fault_at3", loops=L, desc="I/O error at destination call #3 of a 2-stream dump", tier="thorough"),
    H("c09_dir_section::c10_fault_at4", loops=L, desc="I/O error at destination call #4 of a 2-stream dump"),
    H("c09_dir_section::c10_fault_at5", loops=L, desc="I/O error at destination call #5 of a 2-stream dump", tier="thorough"),
    H("c09_dir_section::c10_fault_at6", loops=L, desc="I/O error at destination call #6 of a 2-stream dump"),
    H("c09_dir_section::c10_fault_at7", loops=L, desc="I/O error at destination call #7 of a 2-stream dump", tier="thorough"),
    H("c09_dir_section::c10_fault_at8", loops=L, desc="I/O error at destination call #8 of a 2-stream dump", tier="thorough"),
]
