PROPERTY = "C09"
ENCODED = ["dir_section::DirSection::{new,position,dump_dir_entry,write_to_file}", "mem_writer::{Buffer,MemoryWriter<MDRawHeader>,MemoryArrayWriter<MDRawDirectory>}"]
BOUNDS = {"destination": "160-byte array with std::io::Cursor semantics; all 160 pre-existing bytes symbolic", "initial cursor": "symbolic 0..8",
          "operation sequences": "8 shapes of 2-7 operations over {grow image by 4/8/12 symbolic bytes, directory entry, flush, flush+entry}, 1-3 directory slots",
          "oracle": "checked after every operation at one symbolic destination index (covers every index)"}
OUTSIDE = ["destinations that move their own cursor or accept partial writes", "the mac writer's use of DirSection (does not compile on this host)",
           "sequences longer than 7 operations / more than 3 slots (the 18-slot sequence of generate_dump is driven in the dump() skeleton harnesses of C01/C19)"]
ASSUMPTIONS = ["destination large enough (capacity is a harness bound, not part of the property)", "directory entries written have non-zero stream type"]
L = {"extend_with": 60, "ArrDest": 80}
HARNESSES = [
    H("c09_dir_section::c09_flush_grow_flushdir_x2", loops=L, desc="generate_dump's pattern: flush, (grow, flush+entry) x2"),
    H("c09_dir_section::c09_grow_before_first_flush", loops=L, desc="image grows before the first flush"),
    H("c09_dir_section::c09_dir_then_flush", loops=L, desc="entry emitted separately from the flush"),
    H("c09_dir_section::c09_flushdir_first", loops=L, desc="first operation is flush+entry"),
    H("c09_dir_section::c09_empty_flushes", loops=L, desc="flushes with nothing new"),
    H("c09_dir_section::c09_dir_unflushed_stream", loops=L, desc="entry for a stream that is only partly flushed"),
    H("c09_dir_section::c09_three_streams", loops=L, desc="three streams", tier="thorough"),
    H("c09_dir_section::c09_entry_only", loops=L, desc="entry without stream bytes"),
]
