PROPERTY = "C07"
ENCODED = ["linux::sections::app_memory::write", "linux::sections::memory_list_stream::write", "thread_list_stream::write (instruction window, stack registration; thorough tier)"]
BOUNDS = {"application regions": "0-3 regions; address fully symbolic; length is a shape: 1, 3, 5, 7, 8, 9, 16, 32", "bytes": "every byte symbolic, fidelity checked at a symbolic index",
          "instruction window": "ip fully symbolic relative to a symbolic mapping (1..64 pages), window request == [max(start, ip-128), min(end, ip+128))"}
OUTSIDE = ["regions longer than 32 bytes (one copy call whatever the length; the readers are C17)", "regions adjacent to unmapped pages against the real readers (C17's contract)",
           "no mapping covers page 0 or the last page (ip-128 / ip+128 do not wrap)"]
ASSUMPTIONS = ["copy_from_process contract stub (records the request, returns min(len, 32) arbitrary bytes); nix process_vm_readv stubbed to feed the same ghost log, so a writer that bypasses copy_from_process is still observed", "std::fmt::format stubbed"]
TL = {"XMM_SAVE_AREA32": 100, "MINIDUMP_EXCEPTION": 20, "alloc_from_array": 20}
def A(n, d, tier="quick"): return H("c07_memory_list::" + n, desc=d, tier=tier, loops={"extend_with": 40, "alloc_from_array": 8})
HARNESSES = [
    H("c07_memory_list::c07_app_none", desc="no application region: empty list", loops={"extend_with": 40, "alloc_from_array": 8}, expect_unsat_covers=("at least one region", "64-bit address")), A("c07_app_len1", "one 1-byte region"), A("c07_app_len7_len9", "two regions, 7 and 9 bytes"),
    A("c07_app_len8_len16", "two regions, 8 and 16 bytes"), A("c07_app_len32", "one 32-byte region"), A("c07_app_len16_len4", "a shorter region after a longer one"), A("c07_app_three", "three regions", "thorough"),
    A("c07_app_read_fails", "second region unreadable: hard error"),
    H("c06_stacks::c06_fill_stack_capped_2k", desc="a shortened thread stack is recorded (thread record AND memory list) at the address its bytes were read from"),
    H("c06_stacks::c06_fill_stack_uncapped", desc="an unshortened thread stack: same"),
    H("c06_stacks::c04_tl_1thread_crash", desc="instruction-pointer window and stack registration (thread list with crash context)", timeout=2400, loops=TL, est_gb=14, mem_gb=30, tier="thorough"),
]
