PROPERTY = "C03"
ENCODED = ["linux::ptrace_dumper::PtraceDumper::{suspend_thread,suspend_threads,resume_thread,resume_threads,continue_process}", "ptrace_dumper::ptrace_detach", "<PtraceDumper as Drop>::drop", "PtraceDumper::{init,stop_process} (SIGSTOP/SIGCONT pairing)"]
BOUNDS = {"threads": "1 (14 scripts), 2 (2 scripts), 3 (1 script); thread ids concrete and distinct",
          "per-thread script": "attach ok/ESRCH; up to 4 waitpid outcomes from {stopped by SIGSTOP, stopped by another signal (symbolic choice of signal), EINTR, exited, ECHILD}; getregs ok / null stack pointer / error",
          "exit paths": "drop only; resume_threads then drop",
          "stop_process": "8 poll scripts of up to 4 readings of /proc/<pid>/stat: stopped at once / later / never (running, zombie leader, tracing stop) / unreadable at once / later / SIGSTOP refused; timeouts 1-3 s against a clock that advances 1 s per reading"}
OUTSIDE = ["real interleavings of signal arrival with attach, group-stop vs tracing-stop, the kernel's signal queues (the stubs encode the ptrace(2)/wait(2) man-page contract)",
           "the real clock and the text of /proc/<pid>/stat (scripted: Stat::from_file, Instant::now, thread::sleep)", "errors raised later in dump(): there the guarantee is Rust dropping the local dumper (checked by the dump() skeleton harnesses of C19 on the Ok path only)",
           "more than 2 intercepted signals per thread"]
ASSUMPTIONS = ["stubs: ptrace::attach/detach/cont, wait::waitpid, signal::kill, ThreadInfoX86::getregs over ghost state (attached set, alive flag, signals handed out / re-injected)",
               "waitpid with __WALL returns only Stopped, Exited or an error (no WNOHANG/WCONTINUED)", "std::fmt::format stubbed", "c03_stop_*: nix kill, <Stat as FromRead>::from_file, Instant::now (1 s per reading), thread::sleep and the three later init steps are scripted"]
def S(n, d, tier="quick"): return H("c03_suspend::" + n, desc=d, tier=tier, timeout=1800, est_gb=11, mem_gb=24)
def P(n, d, tier="quick"): return H("c03_stop::" + n, desc=d, tier=tier, timeout=900, est_gb=4)
HARNESSES = [
    P("c03_stop_seen_at_once", "init+drop: stop observed at the first poll"), P("c03_stop_seen_later", "stop observed at the second poll"), P("c03_stop_timeout", "never stops: timeout, soft error, SIGCONT still sent"),
    P("c03_stop_timeout_zombie_leader", "main thread exited (state Z forever)"), P("c03_stop_traced_is_not_stopped", "state t is not a group stop"), P("c03_stop_stat_unreadable", "stat unreadable after SIGSTOP"),
    P("c03_stop_stat_unreadable_later", "stat unreadable at the second poll"), P("c03_stop_refused", "SIGSTOP refused (EPERM)"),
    H("c19_dump::g_dump_fresh", desc="dump(): threads resumed exactly once, before the soft-error stream; nothing stopped at return; SIGCONT sent", loops={"MINIDUMP_EXCEPTION": 20, "alloc_from_array": 8}, timeout=2400, est_gb=8, mem_gb=24),
    H("c19_dump::g_dump_handles_fail", desc="dump() with a failing best-effort step: same", loops={"MINIDUMP_EXCEPTION": 20, "alloc_from_array": 8}, timeout=2400, est_gb=8, mem_gb=24, tier="thorough"),
    S("c03_plain_drop", "1 thread, clean attach, drop (Drop path: ~12 min)", "thorough"), S("c03_plain_resume", "1 thread, clean attach, resume, drop"),
    S("c03_one_signal_resume", "a signal arrives before the SIGSTOP; explicit resume, then drop"), S("c03_one_signal", "a signal arrives before the SIGSTOP; Drop path only (~12 min)", "thorough"), S("c03_two_signals_resume", "two signals arrive before the SIGSTOP"),
    S("c03_eintr", "waitpid interrupted (Drop path: ~12 min)", "thorough"), S("c03_signal_eintr", "signal, then EINTR", "thorough"),
    S("c03_attach_fails", "attach fails (thread gone)"), S("c03_dies_while_attaching", "thread exits during the wait"),
    S("c03_signal_then_dies", "signal re-injected, then the thread exits", "thorough"), S("c03_wait_fails", "waitpid fails: detach"),
    S("c03_signal_then_wait_fails", "signal, then waitpid fails", "thorough"), S("c03_seccomp_thread", "null stack pointer: skipped and detached"),
    S("c03_signal_seccomp_thread", "signal, then skipped", "thorough"), S("c03_regs_fail", "getregs fails: skipped and detached"),
    S("c03_two_threads_mixed", "2 threads: one with a signal, one dies", "thorough"), S("c03_two_threads_skip_first", "2 threads: first skipped", "thorough"),
    S("c03_two_threads_attach_fails_first", "2 threads: attach to the first fails, the second is still suspended, listed and resumed"),
    S("c03_three_threads", "3 threads", "thorough"),
]
