PROPERTY = "C18"
ENCODED = ["linux::sections::memory_info_list_stream::get_memory_protection", "linux::auxv: From<DirectAuxvDumpInfo> for AuxvDumpInfo, AuxvDumpInfo::is_complete",
           "MinidumpWriter::write_file", "linux::dso_debug::write_dso_debug_stream (record emission)"]
BOUNDS = {"protection table": "all 32 permission values", "direct auxv": "all four values fully symbolic", "file copy": "8 symbolic bytes", "linker stream": "a complete 2-object chain: symbolic r_debug fields, load addresses, l_ld, l_name; names 'ab' and none; 2-entry dynamic section"}
OUTSIDE = ["equality with the kernel's /proc files (cmdline, environ, auxv, limits, maps, status, cpuinfo): std::fs::read is a stub", "MemoryInfoList and HandleData writers: they obtain their records through file I/O "
           "(MemoryMaps::from_file - a default trait method Kani cannot stub, read_dir/read_link/stat) and are not executed; their layout rests on C16's alloc_with_val/alloc_from_iter laws",
           "uname / /proc/cpuinfo parsing (inline BufReader<File> loop)", "filling missing auxv values from /proc/<pid>/auxv ('the kernel's otherwise')", "more than 2 loaded objects; names longer than 2 bytes"]
ASSUMPTIONS = ["std::fs::read stubbed to return 8 arbitrary bytes", "copy_from_process replaced by a scripted target memory for the linker chain", "std::fmt::format stubbed; Vec::resize memset model"]
HARNESSES = [
    H("c18_streams::c18_memory_protection_table", desc="permission -> protection table, all 32 values"),
    H("c18_streams::c18_direct_auxv_precedence", desc="caller-supplied auxv values: 0 = unset, others kept; completeness"),
    H("c18_streams::c18_write_file_is_a_byte_copy", desc="raw stream == bytes returned by the file read", loops={"extend_with": 20}),
    H("c02_dso_debug::c18_dso_two_objects", desc="linker debug stream for a 2-object chain mirrors target memory", timeout=3400, est_gb=12, mem_gb=30, loops={"extend_with": 60, "position": 260}, tier="thorough", fs_array=4096),
]
