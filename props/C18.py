PROPERTY = "C18"
ENCODED = ["linux::sections::memory_info_list_stream::get_memory_protection", "linux::auxv: From<DirectAuxvDumpInfo> for AuxvDumpInfo, AuxvDumpInfo::is_complete",
           "MinidumpWriter::write_file", "sections::memory_info_list_stream::write", "sections::systeminfo_stream::write + dumper_cpu_info::write_cpu_information (failure paths)", "linux::dso_debug::write_dso_debug_stream (record emission)"]
BOUNDS = {"protection table": "all 32 permission values", "direct auxv": "all four values fully symbolic", "file copy": "8 symbolic bytes", "memory-info list": "1-2 memory-map lines (3 in the thorough tier) with symbolic ranges (ascending, up to 2^40 bytes each) and all 32 permission values", "system info": "/proc/cpuinfo unreadable or empty; uname scripted", "linker stream": "a complete 2-object chain: symbolic r_debug fields, load addresses, l_ld, l_name; names 'ab' and none; 2-entry dynamic section"}
OUTSIDE = ["equality with the kernel's /proc files (cmdline, environ, auxv, limits, maps, status, cpuinfo): std::fs::read is a stub", "the HandleData writer: it obtains its records through read_dir/read_link/stat and is not executed; its layout rests on C16's alloc_with_val/alloc_from_iter laws", "parsing of /proc/<pid>/maps for the memory-info list (MemoryMaps::from_file is replaced by scripted lines)", "CPU family/model/stepping/vendor/count (the success path of the /proc/cpuinfo parser)", "the linker debug stream records for two objects: c18_dso_two_objects (thorough) does not finish in 3400 s",
           "uname / /proc/cpuinfo parsing (inline BufReader<File> loop)", "filling missing auxv values from /proc/<pid>/auxv ('the kernel's otherwise')", "more than 2 loaded objects; names longer than 2 bytes"]
ASSUMPTIONS = ["std::fs::read stubbed to return 8 arbitrary bytes", "copy_from_process replaced by a scripted target memory for the linker chain", "std::fmt::format stubbed; Vec::resize memset model"]
HARNESSES = [
    H("c18_streams::c18_memory_protection_table", desc="permission -> protection table, all 32 values"),
    H("c18_streams::c18_direct_auxv_precedence", desc="caller-supplied auxv values: 0 = unset, others kept; completeness"),
    H("c18_streams::c18_write_file_is_a_byte_copy", desc="raw stream == bytes returned by the file read", loops={"extend_with": 20}),
    H("c18_streams::c18_memory_info_list_1", desc="memory-info list for 1 memory-map line: range, protection, private/shared, counts", loops={"MINIDUMP_MEMORY_INFO": 60, "alloc_from_iter": 6}, timeout=900, est_gb=5),
    H("c18_streams::c18_memory_info_list_2", desc="memory-info list for 2 lines", loops={"MINIDUMP_MEMORY_INFO": 60, "alloc_from_iter": 6}, timeout=900, est_gb=5),
    H("c18_streams::c18_memory_info_list_3", desc="memory-info list for 3 lines", loops={"MINIDUMP_MEMORY_INFO": 60, "alloc_from_iter": 6}, timeout=1500, est_gb=8, tier="thorough"),
    H("c18_streams::c11_systeminfo_cpuinfo_unreadable", desc="system info names the platform (Linux), the CPU architecture (AMD64) and the OS version string even when /proc/cpuinfo cannot be read", timeout=900, est_gb=4, loops={"CPU_INFORMATION": 30}),
    H("c18_streams::c11_systeminfo_cpuinfo_empty", desc="the same with an empty /proc/cpuinfo", timeout=900, est_gb=4, loops={"CPU_INFORMATION": 30}),
    H("c02_dso_debug::c18_dso_two_objects", desc="linker debug stream for a 2-object chain mirrors target memory", timeout=3400, est_gb=12, mem_gb=30, loops={"extend_with": 60, "position": 260}, tier="thorough", fs_array=4096),
]
