PROPERTY = "C06"
ENCODED = ["linux::ptrace_dumper::PtraceDumper::get_stack_info (+ find_mapping, may_be_stack)", "linux::sections::thread_list_stream::fill_thread_stack (via forwarding shim)",
           "linux::sections::thread_list_stream::write (cap selection; crash-context thread is passed MaxStackLen::None)"]
BOUNDS = {"get_stack_info": "2 ascending disjoint mappings (start k<<16, 1..64 pages of 64 KiB, gap 0..64 pages, all permission bits symbolic), fully symbolic stack pointer; thorough: 4 KiB pages (guard walk of 257 steps)",
          "fill_thread_stack": "1 symbolic rw mapping (start k<<12, 1..64 pages), stack pointer anywhere inside it, cap in {none, 2048}; 16 bytes served by the copy stub",
          "thread list": "1-2 threads (3 in thorough), with/without crash context, with a size limit of 1 byte (estimate always exceeded)"}
OUTSIDE = ["'only threads at position >= 20 are shortened': needs a 21-thread run of thread_list_stream::write, which does not fit (one thread costs 2-7 min, two threads 17 GB); the selection expression itself is executed with idx < 20 only",
           "byte fidelity of stacks longer than 16 bytes (the copy is one call; C17 covers the readers)", "mappings whose biased and kernel ranges differ (Android)"]
ASSUMPTIONS = ["copy_from_process replaced by a contract stub (records the request, returns 16 arbitrary bytes)",
               "fill_thread_stack/thread-list harnesses use a contract stub for get_stack_info (always Ok, region = [page(SP), mapping end)) that the get_stack_info harness checks against the real function",
               "thread-list harnesses: ThreadInfo::create, the CONTEXT_AMD64 serializer and MemoryArrayWriter::set_value_at are replaced by ghost-logging stubs (what is handed to the image builder is observed, not image bytes)",
               "Vec::resize replaced by a memset model; std::fmt::format stubbed"]
TL = {"XMM_SAVE_AREA32": 100, "MINIDUMP_EXCEPTION": 20, "alloc_from_array": 20}
HARNESSES = [
    H("c06_stacks::c06_get_stack_info_256k", desc="get_stack_info, 2 symbolic mappings, symbolic SP, 256 KiB pages (5-step guard walk)", timeout=1800),
    H("c06_stacks::c06_get_stack_info_64k", desc="get_stack_info, 64 KiB pages (17-step guard walk)", timeout=2400, tier="thorough"),
    H("c06_stacks::c06_get_stack_info_4k", desc="get_stack_info, 4 KiB pages (257-step guard walk)", timeout=3400, tier="thorough", mem_gb=24),
    H("c06_stacks::c06_fill_stack_uncapped", desc="fill_thread_stack, no cap: [page(SP), mapping end)"),
    H("c06_stacks::c06_fill_stack_capped_2k", desc="fill_thread_stack, 2 KiB cap: contains SP, starts no higher than SP"),
    H("c06_stacks::c06_fill_stack_unmapped", desc="SP in no plausible mapping: empty region", tier="thorough"),
    H("c06_stacks::c04_tl_1thread_crash", desc="thread list, crash-context thread with a size limit... is never shortened (request reaches the mapping end)", timeout=2400, loops=TL, est_gb=14, mem_gb=30, tier="thorough"),
]
