PROPERTY = "C16"
ENCODED = ["mem_writer::Buffer::{with_capacity,reserve,write,write_at,write_all}", "mem_writer::MemoryWriter<T>::{alloc_with_val,alloc,set_value,location}",
           "mem_writer::MemoryArrayWriter<T>::{alloc_array,alloc_from_iter,alloc_from_array,set_value_at,location,location_of_index,write_bytes}",
           "mem_writer::write_string_to_location", "minidump_common scroll Pread/Pwrite derives of each T (as compiled)"]
TYPES = ["u8", "u16", "u32", "u64", "MDLocationDescriptor", "MDRawDirectory", "MDMemoryDescriptor", "MDRawThreadName", "MDRawThread", "MDRawHeader",
         "MDRawLinkMap", "MDRawDebug", "MDMemoryInfo", "MDRawHandleDescriptor", "MDRawHandleDataStream", "MDMemoryInfoList", "MDRawModule",
         "MDRawExceptionStream", "MDRawSystemInfo", "RawContextCPU (position/size/5 fields only)"]
BOUNDS = {"instantiations": TYPES, "history per type": "write value; reserve + fill later; reserve array[2] + fill element 1; array from iterator of 2 - one fixed history of 6 operations",
          "values": "all SIZE bytes of each value symbolic", "earlier content": "5 symbolic bytes", "strings": "'a' + c + 'z' for c in the boundary code points U+0000, 7F, 80, 7FF, 800, D7FF, E000, FFFF, 10000, 10FFFF; empty string",
          "alloc_from_array": "0..3 MDMemoryDescriptor elements"}
OUTSIDE = ["operation histories other than the fixed 6-step one per type (each law is checked from an arbitrary 5-byte prefix, not from arbitrary histories)",
           "strings other than the 10 boundary-code-point strings and the empty string (a symbolic char makes the UTF-16 length symbolic: measured 16 GB / 7 min)", "arrays longer than 3"]
ASSUMPTIONS = ["values of T are obtained from symbolic bytes with T's own scroll::Pread; equality of written bytes with those bytes relies on Pread being the inverse of the little-endian layout"]
def L(n): return {"extend_with": n}
HARNESSES = [
    H("c16_mem_writer::c16_u8", loops=L(20), desc="u8"), H("c16_mem_writer::c16_u16", loops=L(20), desc="u16"),
    H("c16_mem_writer::c16_u32", loops=L(20), desc="u32"), H("c16_mem_writer::c16_u64", loops=L(30), desc="u64"),
    H("c16_mem_writer::c16_location", loops=L(30), desc="MDLocationDescriptor"),
    H("c16_mem_writer::c16_directory", loops=L(40), desc="MDRawDirectory"),
    H("c16_mem_writer::c16_memory_descriptor", loops=L(50), desc="MDMemoryDescriptor"),
    H("c16_mem_writer::c16_thread_name", loops=L(40), desc="MDRawThreadName"),
    H("c16_mem_writer::c16_thread", loops=L(110), desc="MDRawThread"),
    H("c16_mem_writer::c16_header", loops=L(80), desc="MDRawHeader"),
    H("c16_mem_writer::c16_link_map", loops=L(60), desc="MDRawLinkMap"),
    H("c16_mem_writer::c16_debug", loops=L(90), desc="MDRawDebug"),
    H("c16_mem_writer::c16_memory_info", loops=L(110), desc="MDMemoryInfo"),
    H("c16_mem_writer::c16_handle_descriptor", loops=L(80), desc="MDRawHandleDescriptor"),
    H("c16_mem_writer::c16_handle_stream", loops=L(50), desc="MDRawHandleDataStream"),
    H("c16_mem_writer::c16_memory_info_list", loops=L(50), desc="MDMemoryInfoList"),
    H("c16_mem_writer::c16_module", loops=L(230), desc="MDRawModule", timeout=1800),
    H("c16_mem_writer::c16_exception_stream", loops=L(350), desc="MDRawExceptionStream", timeout=1800, tier="thorough"),
    H("c16_mem_writer::c16_system_info", loops=L(130), desc="MDRawSystemInfo"),
    H("c16_mem_writer::c16_from_array_memdesc", loops=L(60), desc="alloc_from_array, 0..3 elements"),
    H("c16_mem_writer::c16_write_bytes", loops=L(20), desc="write_bytes"),
    H("c16_mem_writer::c16_context", loops={"CONTEXT_AMD64": 520}, desc="RawContextCPU (1232 bytes), real derived serializer, every register offset", timeout=3000, tier="thorough"),
    H("c16_mem_writer::c16_string_u0000", loops=L(20), desc="string 'a' + U+0000 + 'z'"),
    H("c16_mem_writer::c16_string_u007f", loops=L(20), desc="string 'a' + U+007F + 'z'"),
    H("c16_mem_writer::c16_string_u0080", loops=L(20), desc="string 'a' + U+0080 + 'z'"),
    H("c16_mem_writer::c16_string_u07ff", loops=L(20), desc="string 'a' + U+07FF + 'z'"),
    H("c16_mem_writer::c16_string_u0800", loops=L(20), desc="string 'a' + U+0800 + 'z'"),
    H("c16_mem_writer::c16_string_ud7ff", loops=L(20), desc="string 'a' + U+D7FF + 'z'"),
    H("c16_mem_writer::c16_string_ue000", loops=L(20), desc="string 'a' + U+E000 + 'z'"),
    H("c16_mem_writer::c16_string_uffff", loops=L(20), desc="string 'a' + U+FFFF + 'z'"),
    H("c16_mem_writer::c16_string_u10000", loops=L(20), desc="string 'a' + U+10000 + 'z'"),
    H("c16_mem_writer::c16_string_u10ffff", loops=L(20), desc="string 'a' + U+10FFFF + 'z'"),
    H("c16_mem_writer::c16_string_empty", loops=L(20), desc="empty string"),
]
