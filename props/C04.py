PROPERTY = "C04"
ENCODED = ["linux::thread_info::x86::ThreadInfoX86::{fill_cpu_context,get_instruction_pointer}", "thread_info::copy_u32_registers",
           "linux::sections::thread_list_stream::write (record/contexts per thread)", "PtraceDumper::get_thread_info_by_index"]
BOUNDS = {"register files": "all 27 general registers, 512-byte FXSAVE area and 8 debug registers fully symbolic", "thread list": "1-2 threads (3 thorough), symbolic distinct thread ids, per-thread symbolic register files"}
OUTSIDE = ["enumeration of /proc/<pid>/task; PTRACE_GETREGSET/GETREGS/PEEKUSER themselves (ThreadInfo::create is a contract stub)", "that no thread runs between register and stack capture (kernel honouring ptrace-stop); the capture-window ordering in generate_dump is checked in the dump() skeleton (C19/C01)",
           "threads exiting between enumeration and attach (attach failure path: C03)", "more than 3 threads"]
ASSUMPTIONS = ["ThreadInfo::create stub returns an arbitrary register file per call, remembered in ghost state", "contexts are observed at the serializer boundary (ghost log), serializer layout is C16 (c16_context)",
               "copy_from_process / get_stack_info contract stubs as in C06"]
TL = {"XMM_SAVE_AREA32": 100, "MINIDUMP_EXCEPTION": 20, "alloc_from_array": 20}
HARNESSES = [
    H("c19_dump::g_dump_fresh", desc="capture window: every stream that reads target memory is produced while the target is stopped; only the soft-error stream follows the resume", loops={"MINIDUMP_EXCEPTION": 20, "alloc_from_array": 8}, timeout=2400, est_gb=8, mem_gb=24),
    H("c04_registers::c04_ptrace_regs_to_context", desc="ptrace register files -> CONTEXT_AMD64, all values symbolic", loops={"XMM_SAVE_AREA32": 100}),
    H("c06_stacks::c04_tl_1thread_requested", desc="thread list, 1 thread: its record carries its id, its registers, its stack", timeout=2400, loops=TL, est_gb=14, mem_gb=30, expect_unsat_covers=("window clipped at the mapping start", "window clipped at the mapping end", "ip outside every mapping")),
    H("c03_suspend::c03_attach_fails", desc="a thread that exited before the attach (ESRCH) is omitted from the list AND reported as a soft error", timeout=1800, est_gb=11, mem_gb=24),
    H("c03_suspend::c03_dies_while_attaching", desc="a thread that exits during the wait is omitted and reported", timeout=1800, est_gb=11, mem_gb=24),
    H("c03_suspend::c03_two_threads_attach_fails_first", desc="the threads after a vanished one are still suspended and listed, in order", timeout=1800, est_gb=11, mem_gb=24),
    H("c06_stacks::c04_tl_2threads_requested_absent", desc="2 threads, no crash context, blamed thread not listed", timeout=3400, loops=TL, tier="thorough", mem_gb=30, expect_unsat_covers=("window clipped at the mapping start", "window clipped at the mapping end", "ip outside every mapping")),
    H("c06_stacks::c04_tl_2threads_requested_first", desc="2 threads, blamed = first", timeout=3400, loops=TL, tier="thorough", mem_gb=30, expect_unsat_covers=("window clipped at the mapping start", "window clipped at the mapping end", "ip outside every mapping")),
    H("c06_stacks::c04_tl_3threads_requested_mid", desc="3 threads", timeout=3400, loops=TL, tier="thorough", mem_gb=30, expect_unsat_covers=("window clipped at the mapping start", "window clipped at the mapping end", "ip outside every mapping")),
]
