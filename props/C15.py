PROPERTY = "C15"
ENCODED = ["linux::sections::thread_names_stream::write", "mem_writer::write_string_to_location",
           "mem_writer::MemoryWriter::<u32>::alloc_with_val", "mem_writer::MemoryArrayWriter::<MDRawThreadName>::{alloc_array,set_value_at}",
           "mem_writer::Buffer::{reserve,write_at}"]
BOUNDS = {"threads": "1..4 (every named/unnamed pattern for 1-2 threads, 6 of 8 for 3, 2 for 4)",
          "thread ids": "fully symbolic positive i32",
          "names": "concrete per slot: 'ab', U+00E9 (2-byte UTF-8), U+1D11E+'x' (surrogate pair), '' (empty)",
          "earlier image content": "4 symbolic bytes"}
OUTSIDE = ["how names are read from /proc/<pid>/task/<tid>/comm (I/O)", "more than 4 threads", "names other than the four fixed ones "
           "(a symbolic name makes the UTF-16 vector length symbolic: measured OOM after 17 min); string encoding laws are C16"]
ASSUMPTIONS = ["thread ids > 0 (kernel tids)", "PtraceDumper built directly through a field-filling shim (threads list given)"]
L = {"extend_with": 60}
HARNESSES = [
    H("c15_thread_names::c15_n1_named", loops=L, desc="1 thread, named"),
    H("c15_thread_names::c15_n1_unnamed", loops=L, desc="1 thread, unnamed"),
    H("c15_thread_names::c15_n2_un_na", loops=L, desc="2 threads: unnamed, named"),
    H("c15_thread_names::c15_n2_na_un", loops=L, desc="2 threads: named, unnamed"),
    H("c15_thread_names::c15_n2_na_na", loops=L, desc="2 threads: both named"),
    H("c15_thread_names::c15_n3_un_na_na", loops=L, desc="3 threads: unnamed, named, named"),
    H("c15_thread_names::c15_n3_na_un_na", loops=L, desc="3 threads: named, unnamed, named"),
    H("c15_thread_names::c15_n1_empty", loops=L, desc="1 thread with an empty (readable) name"),
    H("c15_thread_names::c15_n2_empty_na", loops=L, desc="2 threads: empty name, named"),
    H("c15_thread_names::c15_n2_na_empty", loops=L, desc="2 threads: named, empty name"),
    H("c15_thread_names::c15_n3_na_empty_un", loops=L, tier="thorough", desc="3 threads: named, empty name, unnamed"),
    H("c15_thread_names::c15_n3_un_un_na", loops=L, tier="thorough", desc="3 threads: unnamed, unnamed, named"),
    H("c15_thread_names::c15_n3_na_na_un", loops=L, tier="thorough", desc="3 threads: named, named, unnamed"),
    H("c15_thread_names::c15_n4_un_na_un_na", loops=L, tier="thorough", desc="4 threads alternating"),
    H("c15_thread_names::c15_n4_na_un_na_na", loops=L, tier="thorough", desc="4 threads, one gap"),
]
