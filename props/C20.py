PROPERTY = "C20"
ENCODED = ["linux::maps_reader::MappingInfo::stack_has_pointer_to_mapping",
           "linux::sections::thread_list_stream::fill_thread_stack (inclusion test, via forwarding shim)",
           "linux::ptrace_dumper::PtraceDumper::get_stack_info"]
BOUNDS = {"stack copy": "8..32 bytes (1-4 words), every byte symbolic", "sp_offset": "0, 3, 5, 8, 16 (shapes)",
          "principal mapping": "fully symbolic [lo, hi), lo < hi", "instruction pointer": "fully symbolic",
          "stack mapping (inclusion harness)": "start k<<12, 1..64 pages, rw"}
OUTSIDE = ["copies shorter than one word (not produced by the readers: process_vm_readv/pread/PEEKDATA deliver whole pages/words of a page-aligned request)",
           "crash_thread_references_principal_mapping with a crash context (it copies the crash stack: not instantiated)", "more than 4 stack words"]
ASSUMPTIONS = ["copy_from_process replaced by a contract stub returning min(len, N) arbitrary bytes (N = 16 or 24)",
               "std::fmt::format stubbed (message text is not the subject)"]
L = {"extend_with": 40}
HARNESSES = [
    H("c19_dump::g_dump_principal_not_referenced", desc="skip enabled, principal address in no mapping, no crash context: PrincipalMappingNotReferenced soft error and the dump succeeds", loops={"MINIDUMP_EXCEPTION": 20, "alloc_from_array": 8}, timeout=2400, est_gb=8, mem_gb=24),
    H("c20_skip_stacks::c20_scan_len24_off0", desc="scan 3 words, offset 0"),
    H("c20_skip_stacks::c20_scan_len24_off3", desc="scan, unaligned offset 3 (rounds to 8)"),
    H("c20_skip_stacks::c20_scan_len24_off8", desc="scan, offset 8"),
    H("c20_skip_stacks::c20_scan_len16_off16", desc="offset == length: nothing to scan", expect_unsat_covers=("a pointer into the principal mapping was found",)),
    H("c20_skip_stacks::c20_scan_len8_off0", desc="exactly one word"),
    H("c20_skip_stacks::c20_scan_len20_off0", desc="2 words + partial tail"),
    H("c20_skip_stacks::c20_scan_len32_off5", desc="4 words, offset 5", tier="thorough"),
    H("c20_skip_stacks::c20_incl_serve16_off0", loops=L, desc="fill_thread_stack inclusion, 16-byte copy"),
    H("c20_skip_stacks::c20_incl_serve24_off8", loops=L, desc="fill_thread_stack inclusion, SP 8 bytes into the page"),
    H("c20_skip_stacks::c20_incl_serve24_off5", loops=L, desc="fill_thread_stack inclusion, unaligned SP (offset 5 into the page)"),
    H("c20_skip_stacks::c20_incl_no_principal", loops=L, desc="skipping on but no principal mapping resolved: every stack dropped",
      expect_unsat_covers=("kept because of a stack word", "kept because of the instruction pointer")),
]
