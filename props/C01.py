PROPERTY = "C01"
ENCODED = ["MinidumpWriter::{dump,generate_dump}", "dir_section::DirSection", "mem_writer::*", "sections::{thread_names_stream,memory_list_stream,exception_stream,app_memory,mappings}::write", "mappings::fill_raw_module",
           "dso_debug::write_dso_debug_stream", "thread_list_stream::write (records handed to the image builder)"]
BOUNDS = {"directory accounting": "the real 18-stream generate_dump with modelled /proc- and ptrace-fed writers (4-byte bodies); quick tier observes the (entry, buffer position) sequence handed to DirSection, thorough tier the bytes of image and destination",
          "per-stream layout": "thread names (1-4 threads), memory list (0-3 regions), exception stream, module list (3+1 mappings), linker debug stream (2 objects), thread list (1-2 threads; records observed at the builder boundary)"}
OUTSIDE = ["the real /proc-fed writers end to end (MemoryInfoList, HandleData, SystemInfo, raw file copies): their bodies are modelled; their layout rests on C16's laws",
           "1..64 threads, more than 3 mappings / regions", "the mac writer", "pairwise non-overlap is shown through the chain 'each stream starts at or after the end of the previous one' (streams are laid out in slot order)"]
ASSUMPTIONS = ["see C11/C19 (dump() skeleton stubs), C15, C07, C05, C08, C18 for the per-stream harnesses"]
SK = {"extend_with": 60, "ArrDest": 660, "MINIDUMP_EXCEPTION": 20, "alloc_from_array": 8}
def K(n, d, tier="quick", **kw): return H("c19_dump::" + n, desc=d, tier=tier, loops=SK, timeout=3000, est_gb=16, mem_gb=34, fs_array=1024, **kw)
HARNESSES = [
    H("c19_dump::g_dump_fresh", desc="directory accounting at the DirSection boundary: 20 flushes, 18 entries in the fixed order, types unique, locations chained and inside what is flushed", loops={"MINIDUMP_EXCEPTION": 20, "alloc_from_array": 8}, timeout=2400, est_gb=8, mem_gb=24),
    H("c19_dump::g_dump_handles_fail", desc="directory accounting when a best-effort stream fails: all-zero entry, every other entry as usual", loops={"MINIDUMP_EXCEPTION": 20, "alloc_from_array": 8}, timeout=2400, est_gb=8, mem_gb=24),
    H("c19_dump::g_dump_all_best_effort_fail", desc="directory accounting when every best-effort stream fails: all-zero entries", loops={"MINIDUMP_EXCEPTION": 20, "alloc_from_array": 8}, timeout=2400, est_gb=30, mem_gb=40, tier="thorough"),
    K("c19_dump_fresh", "byte-level directory accounting with the real DirSection and a 640-byte destination", "thorough"),
    H("c15_thread_names::c15_n2_un_na", loops={"extend_with": 60}, desc="thread-name stream layout: count header + array + blobs, disjoint, inside the image"),
    H("c15_thread_names::c15_n3_na_un_na", loops={"extend_with": 60}, desc="thread-name stream layout, 3 threads"),
    H("c07_memory_list::c07_app_len7_len9", loops={"extend_with": 40, "alloc_from_array": 8}, desc="memory list layout: count + 16-byte records, rvas of region bytes"),
    H("c08_modules::c08_write_list", loops={"extend_with": 60}, timeout=3000, est_gb=16, mem_gb=34, tier="thorough", desc="module list layout: count + 108-byte records in call order"),
    H("c20_skip_stacks::c20_incl_serve16_off0", loops={"extend_with": 40}, desc="a skipped stack has size 0 and no memory-list entry (no dangling stack descriptor)"),
    H("c02_dso_debug::c18_dso_two_objects", timeout=3400, est_gb=12, mem_gb=30, fs_array=4096, loops={"extend_with": 60, "position": 260}, desc="linker debug stream layout: link_map array, names, debug record + dynamic section", tier="thorough"),
]
