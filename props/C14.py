PROPERTY = "C14"
ENCODED = ["linux::module_reader::ProcessMemory::{read (Slice), absolute}", "module_reader::section_header_with_name", "ModuleReader::read_name_from_strtab", "module_reader::build_id_from_bytes", "module_reader::is_executable_section", "ModuleReader::{soname_from_program_headers, read_segment}, DynIter (program headers and the name reader scripted)",
           "thorough: BuildId::read_from_module / SoName::read_from_module (all strategies, goblin header/program-header/note/dynamic parsing) on the repo's concrete TINY_ELF"]
BOUNDS = {"layer A": "crate-own arithmetic and lookups on directly constructed goblin section headers (every field symbolic) and symbolic 48-byte images; XOR fold for lengths 0, 1, 16, 17, 40; "
                     "string-table lookups: every out-of-range/overflowing (table offset, table size, name offset), and concrete in-range offsets over 4 symbolic bytes",
          "layer B (thorough)": "the repo's own 785-byte test image, every byte concrete; expected build id and SONAME computed by an independent reader (lib/elfmini.py) when the overlay is built"}
OUTSIDE = ["goblin parsing of symbolic bytes (even 64-byte images exceeded 8-16 GB in the design round): 'for any byte image ... without panicking' is decided for the crate's own arithmetic only",
           "soname_from_sections and the build-id strategies on symbolic images (reached only through goblin parsing); soname_from_program_headers is decided with scripted program headers: one 64-byte dynamic section (DT_STRTAB, DT_STRSZ, DT_SONAME, DT_NULL), two PT_LOAD segments with a symbolic offset/address pair", "32-bit and big-endian images", "every ELF file installed on the machine (sampling, not this family)",
           "memory-vs-file agreement against a live process"]
ASSUMPTIONS = ["sh_name <= u32::MAX (it is a u32 in the file, widened by goblin)", "name_offset < strtab_size for read_name_from_strtab (asserted by the function; both callers check it)", "std::fmt::format stubbed", "c14_soname_strtab_address_in_file: ModuleReader::read_program_headers returns scripted headers, ModuleReader::read_name_from_strtab is a logger (its own behaviour: c14_read_name_from_strtab_*)"]
HARNESSES = [
    H("c14_module_reader::c14_slice_read", desc="ProcessMemory::Slice::read for all (offset, length)"),
    H("c14_module_reader::c14_section_header_with_name_dynstr", desc="section lookup by name, 2 symbolic headers", timeout=1200),
    H("c14_module_reader::c14_section_header_with_name_short", desc="section lookup, 3-byte name", timeout=1200),
    H("c14_module_reader::c14_read_name_from_strtab_out_of_range", desc="string-table name lookup: every out-of-range / overflowing offset is an error", timeout=3000, tier="thorough", est_gb=20, mem_gb=40),
    H("c14_module_reader::c14_read_name_from_strtab_in_range", desc="string-table name lookup: concrete offsets, symbolic bytes", timeout=3000, tier="thorough", est_gb=20, mem_gb=40),
    H("c14_module_reader::c14_build_id_fold_len0", desc="XOR fold, empty"), H("c14_module_reader::c14_build_id_fold_len1", desc="XOR fold, 1 byte"),
    H("c14_module_reader::c14_build_id_fold_len16", desc="XOR fold, 16"), H("c14_module_reader::c14_build_id_fold_len17", desc="XOR fold, 17"),
    H("c14_module_reader::c14_build_id_fold_len40", desc="XOR fold, 40"),
    H("c14_module_reader::c14_is_executable_section", desc="executable-section predicate"),
    H("c14_module_reader::c14_soname_strtab_address_in_file", desc="SONAME via program headers, FILE mode: DT_STRTAB (a virtual address) is translated to its file offset through the containing PT_LOAD", timeout=1200, est_gb=6),
    H("c14_module_reader::c14_soname_offset_outside_table", desc="SONAME via program headers: DT_SONAME >= DT_STRSZ is an error, never a panic (boundary included)", timeout=1200, est_gb=6),
    H("c14_module_reader::c14_tiny_elf_build_id", desc="TINY_ELF build id", timeout=3400, tier="thorough", est_gb=14, mem_gb=30),
    H("c14_module_reader::c14_tiny_elf_soname", desc="TINY_ELF soname", timeout=3400, tier="thorough", est_gb=14, mem_gb=30),
]
