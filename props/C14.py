PROPERTY = "C14"
HARNESSES = [
    H("c14_module_reader::c14_slice_read", desc="ProcessMemory::Slice::read for all (offset, length)"),
    H("c14_module_reader::c14_section_header_with_name_dynstr", desc="section lookup by name, 2 symbolic headers", timeout=1200),
    H("c14_module_reader::c14_section_header_with_name_short", desc="section lookup, 3-byte name", timeout=1200),
    H("c14_module_reader::c14_read_name_from_strtab_out_of_range", desc="string-table name lookup: every out-of-range / overflowing offset is an error", timeout=1200),
    H("c14_module_reader::c14_read_name_from_strtab_in_range", desc="string-table name lookup: concrete offsets, symbolic bytes", timeout=1200),
    H("c14_module_reader::c14_build_id_fold_len0", desc="XOR fold, empty"), H("c14_module_reader::c14_build_id_fold_len1", desc="XOR fold, 1 byte"),
    H("c14_module_reader::c14_build_id_fold_len16", desc="XOR fold, 16"), H("c14_module_reader::c14_build_id_fold_len17", desc="XOR fold, 17"),
    H("c14_module_reader::c14_build_id_fold_len40", desc="XOR fold, 40"),
    H("c14_module_reader::c14_is_executable_section", desc="executable-section predicate"),
    H("c14_module_reader::c14_tiny_elf_build_id", desc="TINY_ELF build id", timeout=3400, tier="thorough", est_gb=14, mem_gb=30),
    H("c14_module_reader::c14_tiny_elf_soname", desc="TINY_ELF soname", timeout=3400, tier="thorough", est_gb=14, mem_gb=30),
]
