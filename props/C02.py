PROPERTY = "C02"
ENCODED = ["linux::dso_debug::write_dso_debug_stream", "PtraceDumper::get_stack_info", "PtraceDumper::sanitize_stack_copy", "MappingInfo::stack_has_pointer_to_mapping",
           "module_reader::{section_header_with_name, ModuleReader::read_name_from_strtab, ProcessMemory::read}", "thread_list_stream::fill_thread_stack",
           "sections::mappings::write (/dev rule)", "maps_reader::SoVersion::parse (concrete names)", "ModuleReader::soname_from_program_headers (scripted program headers)"]
BOUNDS = {"dso_debug": "cut by phase with a scripted target memory: AT_PHNUM/AT_PHDR arbitrary (first read fails); 2 arbitrary program headers; 3 arbitrary dynamic entries; arbitrary r_debug + 3 arbitrary link_maps; "
                       "short reads of the program headers, a dynamic entry, r_debug and a link_map; a cyclic link_map list whose reads never fail",
          "SoVersion::parse": "9 concrete file names (ASCII / multi-byte characters in the third and fourth version component, five components, spaces, no version, overflowing number); every digit pair around a 2-byte character in the thorough tier",
          "soname_from_program_headers": "DT_SONAME >= DT_STRSZ with both fully symbolic (boundary included)",
          "other kernels": "see the bounds of C06 (get_stack_info), C12 (sanitizer), C20 (pointer scan), C14 (ELF arithmetic)"}
OUTSIDE = ["SoVersion::parse on SYMBOLIC name bytes (3-4 symbolic bytes: no verdict in 1500 s; one symbolic character cost 13-16 GB in the design round): only the listed concrete names are decided, which is a bounded sample of shapes, not all names",
           "/proc/<tid>/status and auxv parsing (BufReader<File> loops inline with I/O)", "thread-name reading", "hangs inside the kernel; wall-clock time (bounded iteration counts are shown, not seconds)",
           "the unbounded dynamic-section scan is bounded only by the size of readable target memory (each step is a successful read)",
           "termination of the link_map walk on a cyclic list: the harness for it (c02_dso_linkmap_cycle_terminates) trips the empty-Vec tool artefact (DESIGN.md 0.5) and is not run; by reading, the walk has no iteration cap"]
ASSUMPTIONS = ["copy_from_process replaced by a scripted contract stub (arbitrary bytes, short reads, failure from call k on)", "std::fmt::format stubbed; Vec::resize memset model",
               "no mapping covers page 0 or the last page (IP window arithmetic ip-128/ip+128; Linux mmap_min_addr and canonical addresses)"]
def D(n, d, tier="quick", **kw): return H("c02_dso_debug::" + n, desc=d, tier=tier, timeout=1800, est_gb=8, **kw)
HARNESSES = [
    H("c08_modules::c02_so_version_name_nonascii_separator", desc="SoVersion::parse (module version from the mapped file name) returns, no panic: concrete name", timeout=900, est_gb=4, expect_unsat_covers=("a version was derived","no version")),
    H("c08_modules::c02_so_version_name_fourth_alnum", desc="SoVersion::parse (module version from the mapped file name) returns, no panic: concrete name", timeout=900, est_gb=4, expect_unsat_covers=("a version was derived","no version")),
    H("c08_modules::c02_so_version_name_third_alnum", desc="SoVersion::parse (module version from the mapped file name) returns, no panic: concrete name", timeout=900, est_gb=4, expect_unsat_covers=("a version was derived","no version")),
    H("c08_modules::c02_so_version_total_space_in_name", desc="SoVersion::parse (module version from the mapped file name) returns, no panic: concrete name", timeout=900, est_gb=4, expect_unsat_covers=("a version was derived","no version")),
    H("c08_modules::c02_so_version_total_five_components", desc="SoVersion::parse (module version from the mapped file name) returns, no panic: concrete name", timeout=900, est_gb=4, expect_unsat_covers=("a version was derived","no version")),
    H("c08_modules::c02_so_version_total_nonascii_everywhere", desc="SoVersion::parse returns, no panic: concrete name (did not finish in 900 s)", timeout=3000, est_gb=12, mem_gb=24, tier="thorough", expect_unsat_covers=("a version was derived","no version")),
    H("c08_modules::c02_so_version_total_fourth_nonascii", desc="SoVersion::parse (module version from the mapped file name) returns, no panic: concrete name", timeout=900, est_gb=4, expect_unsat_covers=("a version was derived","no version")),
    H("c08_modules::c02_so_version_total_no_version", desc="SoVersion::parse (module version from the mapped file name) returns, no panic: concrete name", timeout=900, est_gb=4, expect_unsat_covers=("a version was derived","no version")),
    H("c08_modules::c02_so_version_total_trailing_dot", desc="SoVersion::parse returns, no panic: concrete name (did not finish in 900 s)", timeout=3000, est_gb=12, mem_gb=24, tier="thorough", expect_unsat_covers=("a version was derived","no version")),
    H("c08_modules::c02_so_version_total_huge_number", desc="SoVersion::parse (module version from the mapped file name) returns, no panic: concrete name", timeout=900, est_gb=4, expect_unsat_covers=("a version was derived","no version")),
    H("c08_modules::c02_so_version_symbolic_digits", desc="SoVersion::parse, every digit pair around a 2-byte character", timeout=1500, est_gb=8, mem_gb=20, tier="thorough"),
    H("c14_module_reader::c14_soname_offset_outside_table", desc="SONAME via program headers: DT_SONAME >= DT_STRSZ is an error, never a panic", timeout=1200, est_gb=6),
    D("c02_dso_phnum_arbitrary", "AT_PHNUM and AT_PHDR arbitrary"),
    D("c02_dso_phdr_arbitrary", "2 arbitrary program headers"),
    D("c02_dso_phdr_short_read", "short read of the program headers", expect_unsat_covers=("the phase under test ran to its end (cut reached)",)),
    D("c02_dso_dynamic_arbitrary", "3 arbitrary dynamic entries, arbitrary PT_DYNAMIC address (> 15 min)", "thorough"),
    D("c02_dso_dynamic_short_read", "short read of a dynamic entry", expect_unsat_covers=("the phase under test ran to its end (cut reached)",)),
    D("c02_dso_linkmap_arbitrary", "arbitrary r_debug and link_maps", "thorough"),
    D("c02_dso_rdebug_short_read", "short read of r_debug (> 15 min)", "thorough", expect_unsat_covers=("the phase under test ran to its end (cut reached)",)),
    D("c02_dso_linkmap_short_read", "short read of a link_map (> 15 min)", "thorough", expect_unsat_covers=("the phase under test ran to its end (cut reached)",)),
    H("c06_stacks::c06_get_stack_info_256k", desc="get_stack_info: no overflow at the top of the address space, bounded guard walk", timeout=1800),
    H("c12_sanitize::c12_len8_off16_m1", desc="sanitizer: copy shorter than the stack-pointer offset", loops={"extend_with": 300, "sanitize_stack_copy#0": 4, "sanitize_stack_copy#2": 34, "sanitize_stack_copy#4": 9},
      expect_unsat_covers=("a pointer survived", "a word was defaced", "negative small integer seen")),
    H("c14_module_reader::c14_section_header_with_name_dynstr", desc="section lookup arithmetic on arbitrary header fields", timeout=1200),
    H("c14_module_reader::c14_slice_read", desc="bounds-checked slice read for all (offset, length)"),
]
