PROPERTY = "C11"
ENCODED = ["linux::ptrace_dumper::PtraceDumper::init", "MinidumpWriter::{dump,generate_dump} (per-stream match -> soft error + empty directory entry)", "error_graph ErrorList/Sublist (as compiled)",
           "PtraceDumper::suspend_threads (attach failures -> soft errors: see C03)"]
BOUNDS = {"init": "each of the 4 best-effort steps fails or not: none, each single one, all (6 of 16 subsets)",
          "generate_dump": "failure patterns over the 10 best-effort streams + the init error: none, 6 single steps, lsb-release falling back to os-release, 2 pairs, all"}
OUTSIDE = ["that the soft-error stream is well-formed JSON: serde_json pretty printing of Debug-formatted errors is formatting, which is stubbed (write_soft_errors is a modelled writer that records the error list)",
           "the five failspot fail points themselves (the dev-dependency feature is not enabled in the overlay); the natural failures they stand for are scripted instead",
           "the real I/O behind each step (stop_process, /proc/<pid>/auxv, /proc/<pid>/task, /proc/<pid>/maps, /proc files, cpuinfo)", "failure subsets other than those listed"]
ASSUMPTIONS = ["stubs: PtraceDumper::{stop_process,enumerate_threads,enumerate_mappings}, AuxvDumpInfo::try_filling_missing_info, nix::unistd::sysconf (init harnesses)",
               "dump() skeleton: modelled writers for every /proc- or ptrace-fed section (append 4 arbitrary bytes, return Ok or the scripted Err), modelled dumper constructor / suspend / resume, SystemTime::now arbitrary"]
SK = {"extend_with": 60, "ArrDest": 660, "MINIDUMP_EXCEPTION": 20, "alloc_from_array": 8}
def K(n, d, tier="quick", **kw): return H("c19_dump::" + n, desc=d, tier=tier, loops=SK, timeout=3000, est_gb=16, mem_gb=34, fs_array=1024, **kw)
def I(n, d, tier="quick"): return H("c11_init::" + n, desc=d, tier=tier, timeout=900)
HARNESSES = [
    I("c11_init_none_fail", "init: nothing fails"), I("c11_init_stop_fails", "init: stopping the process fails"), I("c11_init_auxv_fails", "init: completing auxv fails"),
    I("c11_init_threads_fail", "init: thread enumeration fails"), I("c11_init_mappings_fail", "init: mapping enumeration fails", "thorough"), I("c11_init_all_fail", "init: all four fail"),
    H("c19_dump::g_dump_all_best_effort_fail", desc="dump: every best-effort step fails (exceeds 24 GB: thorough tier, 40 GB cap)", loops={"MINIDUMP_EXCEPTION": 20, "alloc_from_array": 8}, timeout=3400, est_gb=30, mem_gb=40, tier="thorough"),
    H("c19_dump::g_dump_lsb_falls_back", desc="dump: lsb-release unreadable, os-release used: no error (exceeds 24 GB: thorough tier)", loops={"MINIDUMP_EXCEPTION": 20, "alloc_from_array": 8}, timeout=3400, est_gb=30, mem_gb=40, tier="thorough"),
    H("c19_dump::g_dump_handles_fail", desc="dump: listing open files fails", loops={"MINIDUMP_EXCEPTION": 20, "alloc_from_array": 8}, timeout=2400, est_gb=8, mem_gb=24),
    H("c19_dump::g_dump_cpuinfo_fails", desc="dump: cpuinfo copy fails", loops={"MINIDUMP_EXCEPTION": 20, "alloc_from_array": 8}, timeout=2400, est_gb=8, mem_gb=24, tier="thorough"),
    H("c19_dump::g_dump_lsb_and_os_release_fail", desc="dump: both release files unreadable", loops={"MINIDUMP_EXCEPTION": 20, "alloc_from_array": 8}, timeout=2400, est_gb=8, mem_gb=24, tier="thorough"),
    H("c19_dump::g_dump_dso_fails", desc="dump: linker debug data unreadable", loops={"MINIDUMP_EXCEPTION": 20, "alloc_from_array": 8}, timeout=2400, est_gb=8, mem_gb=24, tier="thorough"),
    H("c19_dump::g_dump_init_error", desc="dump: an init step reported an error", loops={"MINIDUMP_EXCEPTION": 20, "alloc_from_array": 8}, timeout=2400, est_gb=8, mem_gb=24, tier="thorough"),
    H("c19_dump::g_dump_maps_limits_fail", desc="dump: maps and limits copies fail", loops={"MINIDUMP_EXCEPTION": 20, "alloc_from_array": 8}, timeout=2400, est_gb=8, mem_gb=24, tier="thorough"),
    H("c19_dump::g_dump_status_cmdline_fail", desc="dump: status and cmdline copies fail", loops={"MINIDUMP_EXCEPTION": 20, "alloc_from_array": 8}, timeout=2400, est_gb=8, mem_gb=24, tier="thorough"),
    H("c19_dump::g_dump_environ_auxv_fail", desc="dump: environ and auxv copies fail", loops={"MINIDUMP_EXCEPTION": 20, "alloc_from_array": 8}, timeout=2400, est_gb=8, mem_gb=24, tier="thorough"),
    H("c03_stop::c03_stop_timeout", desc="real stop_process times out: init Ok, one StopProcessFailed soft error, later steps run", timeout=900, est_gb=4),
    H("c03_stop::c03_stop_stat_unreadable", desc="real stop_process cannot read the state: same", timeout=900, est_gb=4),
    H("c03_suspend::c03_two_threads_attach_fails_first", desc="attach to one thread fails: soft error, the other threads are still suspended and listed", timeout=1800, est_gb=11, mem_gb=24),
    H("c18_streams::c11_systeminfo_cpuinfo_unreadable", desc="real systeminfo_stream::write, /proc/cpuinfo cannot be opened: stream intact (architecture, platform, OS string), one soft error", timeout=900, est_gb=4, loops={"CPU_INFORMATION": 30}),
    H("c18_streams::c11_systeminfo_cpuinfo_empty", desc="the same with an empty /proc/cpuinfo (no entry found)", timeout=900, est_gb=4, loops={"CPU_INFORMATION": 30}),
    K("c11_dump_all_best_effort_fail", "byte-level: every best-effort step fails", "thorough"),
]
