PROPERTY = "C05"
ENCODED = ["linux::crash_context::CrashContext::{fill_cpu_context,get_instruction_pointer,get_stack_pointer}", "linux::sections::exception_stream::write",
           "linux::sections::thread_list_stream::write (blamed-thread branch, crashing_thread_context bookkeeping)"]
BOUNDS = {"crash context": "all 23 gregs, FXSAVE fields and lanes, ssi_signo/ssi_code/ssi_addr fully symbolic", "blamed thread": "only thread / last of 2 / not listed; with and without crash context"}
OUTSIDE = ["ds/es/ss selectors (a ucontext does not carry them)", "crash thread that is not the last record of a multi-thread list (its optional instruction window would make later offsets symbolic)", "non-x86-64"]
ASSUMPTIONS = ["same stubs as C04/C06 (copy, get_stack_info, ThreadInfo::create, ghost-logging serializer and set_value_at)", "exception stream read back from a fresh 168-byte buffer"]
TL = {"XMM_SAVE_AREA32": 100, "MINIDUMP_EXCEPTION": 20, "alloc_from_array": 20}
HARNESSES = [
    H("c04_registers::c05_exception_crash_ctx", desc="exception stream, crash context supplied, context location known", loops={"MINIDUMP_EXCEPTION": 20}, timeout=900),
    H("c04_registers::c05_exception_crash_ctx_addr", desc="exception stream, crash context + resolved address", loops={"MINIDUMP_EXCEPTION": 20}, timeout=900),
    H("c04_registers::c05_exception_crash_no_ctx", desc="exception stream, crash context, blamed thread not captured", loops={"MINIDUMP_EXCEPTION": 20}, timeout=900),
    H("c04_registers::c05_exception_requested_addr", desc="exception stream, no crash context: DUMP_REQUESTED with the thread's instruction pointer", loops={"MINIDUMP_EXCEPTION": 20}, timeout=900, expect_unsat_covers=('negative signal code (sent from user space)',)),
    H("c04_registers::c05_exception_requested_none", desc="exception stream, no crash context, nothing resolved", loops={"MINIDUMP_EXCEPTION": 20}, timeout=900, expect_unsat_covers=('negative signal code (sent from user space)',)),
    H("c04_registers::c05_ucontext_to_context", desc="ucontext/fpregset -> CONTEXT_AMD64, all values symbolic", loops={"XMM_SAVE_AREA32": 100}),
    H("c06_stacks::c04_tl_1thread_crash", desc="crash context blames the only thread: record uses the supplied context; exception record code/flags/address/context (12-14 min)", timeout=2400, loops=TL, est_gb=14, mem_gb=30, tier="thorough"),
    H("c06_stacks::c04_tl_1thread_requested", desc="no crash context: DUMP_REQUESTED, address == thread's rip, its captured context", timeout=2400, loops=TL, est_gb=14, mem_gb=30, expect_unsat_covers=("window clipped at the mapping start", "window clipped at the mapping end", "ip outside every mapping")),
    H("c06_stacks::c04_tl_2threads_crash_second", desc="2 threads, crash context blames the second", timeout=3400, loops=TL, tier="thorough", mem_gb=30),
    H("c06_stacks::c04_tl_2threads_crash_absent", desc="2 threads, crash context, blamed thread not listed: empty context location", timeout=3400, loops=TL, tier="thorough", mem_gb=30, expect_unsat_covers=("window clipped at the mapping start", "window clipped at the mapping end", "ip outside every mapping")),
]
