PROPERTY = "C08"
ENCODED = ["linux::maps_reader::MappingInfo::{is_interesting,is_contained_in,get_mapping_effective_path_name_and_version,so_version}", "linux::sections::mappings::{write,fill_raw_module}",
           "PtraceDumper::{from_process_memory_for_index,from_process_memory_for_mapping,enumerate_mappings}", "maps_reader::SoVersion::parse (concrete names)"]
BOUNDS = {"predicates": "fully symbolic mapping (start k<<12, size, offset, permissions, named or not) against 2 symbolic caller mappings",
          "fill_raw_module": "identifier of 8 / 20 symbolic bytes, symbolic base and size, file name /a/b.so.1.2, SONAME c.so; replace-basename and append (executable, offset != 0) cases",
          "mappings::write": "one decision per harness: 1 target mapping at a symbolic address (unnamed / all-zero id / id + SONAME) with or without 1 caller-supplied mapping at another symbolic address; 1 target mapping inside a caller mapping (equal end addresses); ids symbolic. Two listed modules in one run (order) only in the thorough tier",
          "enumerate_mappings": "3 derived mappings at symbolic ascending disjoint addresses (sizes 4 KiB-1 MiB, gaps <= 64 KiB), AT_ENTRY fully symbolic (including 0 = unknown and addresses in no mapping)",
          "SoVersion::parse": "3 concrete names with .so.N suffixes (see C02)"}
OUTSIDE = ["parsing of /proc/<pid>/maps (procfs-core) and the aggregation feeding enumerate_mappings (C13): scripted there",
           "agreement of the build id with an independent ELF reader on real files (extraction is C14; here the readers are scripted)", "merged extents (C13)", "deleted binaries, names with spaces / non-ASCII"]
ASSUMPTIONS = ["<BuildId as ReadFromModule>::read_from_module and <SoName as ...>::read_from_module replaced by scripted readers (error / symbolic 8-byte id / all-zero id; SONAME or none)",
               "in the mappings::write harnesses the private fill_raw_module is replaced by a logger (its own behaviour is the c08_raw_module_* harnesses, thorough tier)", "std::path::Path::exists stubbed true; std::fs::File::open stubbed (asserts the path is not under /dev, returns NotFound)", "std::fmt::format stubbed", "c08_entry_point_module_first: File::open returns a dummy handle, BufRead::read_line reports EOF (the real MemoryMaps::from_read then yields an empty list), OwnedFd::drop is a no-op, MappingInfo::aggregate returns the scripted mappings", "Vec::resize memset model"]
def M(n, d, tier="quick", **kw): return H("c08_modules::" + n, desc=d, tier=tier, loops={"extend_with": 60}, timeout=kw.pop("timeout",1500), **kw)
HARNESSES = [
    M("c08_write_unnamed_not_listed", "mappings::write: an unnamed mapping is not listed"), M("c08_write_zero_id_not_listed", "an all-zero build id is not listed"),
    M("c08_write_listed_with_soname", "a named mapping with a build id is listed once: base, size, id, SONAME passed on"), M("c08_write_user_only", "caller-supplied mapping: verbatim, supplied id"),
    M("c08_write_target_then_user", "target modules first, then caller-supplied ones, in order (> 20 min)", "thorough", timeout=3400, est_gb=14, mem_gb=30), M("c08_write_zero_id_and_user", "zero-id target skipped, caller-supplied listed"),
    M("c08_write_suppressed", "a target mapping wholly inside a caller-supplied one is suppressed (equal end addresses), not even read"),
    M("c08_entry_point_module_first", "enumerate_mappings: the mapping containing AT_ENTRY is moved to the front, nothing lost (maps parsing and aggregation scripted)"),
    M("c02_so_version_name_nonascii_separator", "SoVersion::parse: 'a.so.1.2.3\u00e94' (multi-byte character inside a component)"), M("c02_so_version_name_fourth_alnum", "SoVersion::parse: 'a.so.1.2.3.4rc5' (alphanumeric FOURTH component)"),
    M("c02_so_version_name_third_alnum", "SoVersion::parse: 'a.so.1.2.3rc4'"),
    M("c02_so_version_symbolic_digits", "SoVersion::parse: every digit pair in 'a.so.1.2.<d>\u00e9<e>'", "thorough", timeout=1500, est_gb=8, mem_gb=20),
    M("c02_so_version_ascii_separator", "SoVersion::parse: 3 symbolic bytes (does not finish in 1500 s)", "thorough", timeout=3400, est_gb=8, mem_gb=20),
    M("c02_so_version_2byte_separator", "SoVersion::parse: 4 symbolic bytes (does not finish in 1500 s)", "thorough", timeout=3400, est_gb=8, mem_gb=20),
    M("c08_write_listed_no_soname", "unreadable SONAME: listed without it", "thorough", timeout=3000, est_gb=14, mem_gb=30),
    M("c08_is_interesting", "is_interesting predicate"), M("c08_is_contained_in", "is_contained_in predicate"),
    M("c08_raw_module_replace_basename", "module record, basename replaced by SONAME (string handling: > 15 min)", "thorough", est_gb=10, mem_gb=30), M("c08_raw_module_append_soname", "module record, SONAME appended", "thorough", est_gb=10, mem_gb=30),
    M("c08_write_list", "three target mappings + one caller-supplied in one run (does not finish: > 25 GB)", "thorough", est_gb=16, mem_gb=34),
]
