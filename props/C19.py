PROPERTY = "C19"
SK = {"extend_with": 60, "ArrDest": 660, "MINIDUMP_EXCEPTION": 20, "alloc_from_array": 8}
def K(n, d, tier="quick", **kw): return H("c19_dump::" + n, desc=d, tier=tier, loops=SK, timeout=3000, est_gb=16, mem_gb=34, fs_array=1024, **kw)
HARNESSES = [
    K("c19_dump_fresh", "fresh writer, one application region"),
    K("c19_dump_reused_writer", "writer with arbitrary left-over memory_blocks / crashing_thread_context, one application region"),
]
