PROPERTY = "C19"
ENCODED = ["MinidumpWriter::{dump,generate_dump,crash_thread_references_principal_mapping}", "sections::{app_memory,memory_list_stream,exception_stream}::write", "PtraceDumper::{late_init,find_mapping_no_bias}", "<PtraceDumper as Drop>::drop"]
BOUNDS = {"history": "one inductive step: dump() on a writer whose public state fields hold ARBITRARY left-overs (one stale memory descriptor with symbolic fields, a stale crashing-thread context, a stale resolved principal mapping) - over-approximates every earlier sequence of dumps",
          "options": "0/1 application region (8 bytes, symbolic address); skip-unreferenced with a symbolic principal address in no mapping"}
OUTSIDE = ["equivalence with a fresh writer for the streams that come from /proc or ptrace (they do not depend on writer state; their writers are modelled)",
           "the bytes of the image (quick tier observes generate_dump at the DirSection boundary; the thorough tier attempts the same with the real DirSection and a byte-level oracle)"]
ASSUMPTIONS = ["modelled dumper constructor / suspend / resume / section writers / write_file / write_soft_errors (DESIGN.md 2.3)", "quick tier: DirSection::{write_to_file,dump_dir_entry} replaced by loggers (their own behaviour is C09/C10)",
               "copy_from_process contract stub; SystemTime::now arbitrary; std::fmt::format stubbed; Vec::resize memset model"]
SK = {"extend_with": 60, "ArrDest": 660, "MINIDUMP_EXCEPTION": 20, "alloc_from_array": 8}
def K(n, d, tier="thorough", **kw): return H("c19_dump::" + n, desc=d, tier=tier, loops=SK, timeout=3400, est_gb=20, mem_gb=40, fs_array=1024, **kw)
def G(n, d, tier="quick", **kw): return H("c19_dump::" + n, desc=d, tier=tier, loops={"MINIDUMP_EXCEPTION": 20, "alloc_from_array": 8}, timeout=2400, est_gb=10, mem_gb=24, **kw)
HARNESSES = [
    H('c19_dump::selftest_empty_vec_drop', tier='thorough'), H('c19_dump::selftest_sublist_drop', tier='thorough'), H('c19_dump::selftest_sublist_passed_by_value', tier='thorough'),
    G("g_dump_fresh", "fresh writer, one application region"),
    G("g_dump_reused_writer", "writer with arbitrary left-over memory_blocks / crashing_thread_context / principal_mapping, one application region"),
    G("g_dump_reused_principal_mapping", "reused writer, skip-unreferenced, the principal address now matches no mapping"),
    K("c19_dump_reused_writer", "byte-level: real DirSection, 640-byte destination"),
    K("c19_dump_fresh", "byte-level: fresh writer"),
]
