PROPERTY = "C13"
ENCODED = ["linux::maps_reader::MappingInfo::aggregate", "maps_reader::{sanitize_path,is_mapping_a_path}", "MappingInfo::{is_empty_page,end_address,is_executable,name_is_path}"]
BOUNDS = {"lines": "2 lines (3 in the thorough tier)", "names": "quick tier: anonymous and pseudo-named lines ([heap], [vdso]); file-named lines (/a, '/a (deleted)', /b) only in the thorough tier, where every instance so far ran out of memory",
          "numbers": "first start k<<12 (16<=k<2^34), each line 1..8 pages, gap before each line 0..2 pages, all 5 permission bits, offset and vDSO address fully symbolic"}
OUTSIDE = ["the merge rules that need a FILE mapping (reserved gap after / inside an executable file mapping, ' (deleted)' suffix): every harness instance with a path name exceeded 19-25 GB within 9 minutes, so these rules are NOT decided (the seeded C13 change lives there and is missed)", "more than 3 lines", "text parsing of /proc/<pid>/maps (procfs-core)", "pseudo-names built with format! ([stack:N], /SYSVxxxx, [other])", "32-bit address conversion failures"]
ASSUMPTIONS = ["input lines ascending and non-overlapping (a well-formed memory map)", "std::hash::RandomState::new stubbed (getrandom FFI); no map is hashed into",
               "MemoryMaps built by transmuting Vec<MemoryMap> (the struct is #[non_exhaustive])"]
L = {"RawIterRange": 2, "drop_elements": 2, "simd_bitmask": 2, "memchr": 16, "memcmp": 16, "compare_bytes": 16}
def A(n, d, tier="quick", t=1800): return H("c13_aggregate::" + n, loops=L, desc=d, tier=tier, timeout=t, est_gb=12, mem_gb=24)
HARNESSES = [
    H("c13_aggregate::c13_2_anon_anon", loops=L, desc="two anonymous lines (never merged)", timeout=1800, expect_unsat_covers=("a merge happened",)),
    A("c13_2_heap_heap", "two [heap] lines: same-name merge iff contiguous"),
    H("c13_aggregate::c13_2_heap_anon", loops=L, desc="[heap] then anonymous (never merged: the reserved-gap rule needs a file mapping)", timeout=1800, est_gb=12, mem_gb=24, expect_unsat_covers=("a merge happened",)),
    H("c13_aggregate::c13_2_anon_vdso_gate", loops=L, desc="anonymous + [vdso] with a symbolic gate address (renaming; never merged)", timeout=1800, est_gb=12, mem_gb=24, expect_unsat_covers=("a merge happened",)),
    A("c13_3_heap_heap_heap", "three [heap] lines", "thorough"), A("c13_3_anon_heap_anon", "anonymous, [heap], anonymous", "thorough"),
    # file-named lines: every instance so far ran out of memory (19-25 GB within 9 min); kept for the thorough tier
    A("c13_2_same_adjacent", "same file, adjacent", "thorough", 3000), A("c13_2_diff_adjacent", "different files, adjacent", "thorough", 3000),
    A("c13_2_file_anon_adjacent", "file + anonymous, adjacent (reserved-gap rule)", "thorough", 3000), A("c13_3_fold_adjacent", "file, anonymous, file: adjacent (fold rule)", "thorough", 3000),
]
