PROPERTY = "C13"
ENCODED = ["linux::maps_reader::MappingInfo::aggregate", "maps_reader::{sanitize_path,is_mapping_a_path}", "MappingInfo::{is_empty_page,end_address,is_executable,name_is_path}"]
BOUNDS = {"lines": "2, 3 and (thorough) 4 lines", "names": "concrete per instance from {anonymous, /a, '/a (deleted)', /b, [heap], [vdso]} - 13 name patterns",
          "numbers": "first start k<<12 (16<=k<2^34), each line 1..8 pages, gap before each line 0..2 pages, all 5 permission bits, offset and vDSO address fully symbolic"}
OUTSIDE = ["more than 4 lines", "text parsing of /proc/<pid>/maps (procfs-core)", "pseudo-names built with format! ([stack:N], /SYSVxxxx, [other])", "32-bit address conversion failures"]
ASSUMPTIONS = ["input lines ascending and non-overlapping (a well-formed memory map)", "std::hash::RandomState::new stubbed (getrandom FFI); no map is hashed into",
               "MemoryMaps built by transmuting Vec<MemoryMap> (the struct is #[non_exhaustive])"]
L = {"RawIterRange": 2, "drop_elements": 2, "simd_bitmask": 2, "memchr": 16, "memcmp": 16, "compare_bytes": 16}
def A(n, d, tier="quick", t=1800): return H("c13_aggregate::" + n, loops=L, desc=d, tier=tier, timeout=t, est_gb=12, mem_gb=24)
HARNESSES = [
    A('c13_2_same_adjacent', 'same file, adjacent (gap is a shape)'), A('c13_2_same_apart', 'same file, one page apart'), A('c13_2_diff_adjacent', 'different files, adjacent'), A('c13_2_file_anon_adjacent', 'file + anonymous, adjacent'), A('c13_3_fold_adjacent', 'file, anonymous, file: adjacent', 'thorough'),
    A("c13_2_same", "2 lines, same file"), A("c13_2_deleted_same", "2 lines, '/a (deleted)' then /a"), A("c13_2_diff", "2 lines, different files"),
    A("c13_2_file_anon", "file then anonymous (reserved-gap rule)"), H("c13_aggregate::c13_2_anon_anon", loops=L, desc="two anonymous lines (never merged)", timeout=1800, expect_unsat_covers=("a merge happened",)), A("c13_2_heap_heap", "two [heap] lines"),
    A("c13_2_vdso_gate", "anonymous + [vdso] with a symbolic gate address"), A("c13_2_file_anon_gate", "file + anonymous with a symbolic gate address"),
    A("c13_3_fold", "file, empty page, same file (fold rule)"), A("c13_3_fold_other", "file, empty page, other file", tier="thorough"),
    A("c13_3_same", "three lines of one file", tier="thorough"), A("c13_3_anon_file_anon", "anonymous, file, anonymous", tier="thorough"),
    A("c13_4_fold_then_same", "file, empty page, same file, same file", tier="thorough", t=3000),
]
