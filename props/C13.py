PROPERTY = "C13"
ENCODED = ["linux::maps_reader::MappingInfo::aggregate", "maps_reader::sanitize_path", "maps_reader::is_mapping_a_path (own equivalence harnesses)", "MappingInfo::{is_empty_page,end_address,is_executable,name_is_path}"]
BOUNDS = {"lines": "1-2 lines (3 in the thorough tier)",
          "names": "concrete per instance: anonymous, [heap], [vdso], /a, '/a (deleted)', /b; quick tier (900 s limit): pairs of anonymous / pseudo-named lines and SINGLE file-named lines; pairs with a file-named line take 9-12 min each and are in the thorough tier (concrete adjacency pattern: finish; symbolic gaps: attempted)",
          "numbers": "first start k<<12 (16<=k<2^34), each line 1..8 pages, gap before each line 0..2 pages (or concrete 0/1), all 5 permission bits, offset and vDSO address fully symbolic",
          "is_mapping_a_path": "equivalence with the byte-loop reference for EVERY byte string of length 0,1,2,6,13,15 (16 and 24 in the thorough tier)"}
OUTSIDE = ["more than 2 lines in the quick tier (3-line fold rule 'file, anonymous page, same file' is thorough only)", "text parsing of /proc/<pid>/maps (procfs-core)", "names longer than 15 bytes in the quick tier",
           "TStack/Vsys/Other pseudo-names (they go through format!, which is stubbed)"]
ASSUMPTIONS = ["input lines ascending and non-overlapping (a well-formed memory map)", "std::hash::RandomState::new stubbed (getrandom FFI); no map is hashed into",
               "std::fmt::format stubbed (CBMC does not fold the niche-encoded MMapPath discriminant, so the format! arms of the name match are explored although no harness line takes them)",
               "inside aggregate, is_mapping_a_path is replaced by a byte-loop 'contains a slash' reference (std's memchr on the merged name pointer exhausts memory); the real function is proved equal to the reference in c13_is_path_eq_*",
               "MemoryMaps built by transmuting Vec<MemoryMap> (the struct is #[non_exhaustive])"]
L = {"RawIterRange": 2, "drop_elements": 2, "simd_bitmask": 2, "memchr": 16, "memcmp": 16, "compare_bytes": 16, "naive_is_path": 16, "is_mapping_a_path": 16}
LS = {"RawIterRange": 2, "drop_elements": 2, "simd_bitmask": 2, "memchr": 4, "memcmp": 4, "compare_bytes": 4, "naive_is_path": 4, "is_mapping_a_path": 4}
def A(n, d, tier="quick", t=1800, **kw): return H("c13_aggregate::" + n, loops=kw.pop("loops", L), desc=d, tier=tier, timeout=t, est_gb=kw.pop("est_gb", 20), mem_gb=30, **kw)
NM = ("a merge happened",)
NN = ("no merge happened",)
LE = {"memchr": 34, "naive_is_path": 34, "is_mapping_a_path": 34}
def E(n, tier="quick"): return H("c13_aggregate::c13_is_path_eq_len%d" % n, loops=LE, desc="is_mapping_a_path == byte-loop reference, every string of %d bytes" % n, tier=tier, timeout=900, est_gb=4)
HARNESSES = [
    A("c13_2_anon_anon", "two anonymous lines (never merged)", expect_unsat_covers=NM),
    A("c13_2_heap_anon", "[heap] then anonymous (never merged: the reserved-gap rule needs a file mapping)", expect_unsat_covers=NM),
    A("c13_1_vdso_gate", "one [vdso] line with a symbolic gate address: renamed to linux-gate.so iff it starts at the gate address", expect_unsat_covers=NM),
    A("c13_1_anon_gate", "one anonymous line with a symbolic gate address", expect_unsat_covers=NM),
    A("c13_2_anon_vdso_gate", "anonymous + [vdso] with a symbolic gate address (renaming; never merged) (~9 min)", "thorough", expect_unsat_covers=NM),
    # file-named lines (feasible since is_mapping_a_path is replaced by its byte-loop reference, DESIGN 0.9)
    A("c13_1_file", "one file-named line", expect_unsat_covers=NM),
    A("c13_1_deleted", "one '/a (deleted)' line: suffix removed", expect_unsat_covers=NM),
    A("c13_2_same_adjacent", "same file, adjacent: merged (~10 min)", "thorough", expect_unsat_covers=NN),
    A("c13_2_same_apart", "same file, one page apart: not merged (~9 min)", "thorough", expect_unsat_covers=NM),
    A("c13_2_diff_adjacent", "different files, adjacent: merged only by the reserved-gap rule (~10 min)", "thorough"),
    A("c13_2_file_anon_adjacent", "file + anonymous, adjacent (reserved-gap rule after an executable file mapping) (~12 min)", "thorough"),
    E(1), E(2), E(6), E(13), E(15), E(16, "thorough"), E(24, "thorough"),
    H("c13_aggregate::c13_is_path_eq_len0", desc="empty name / no name are not paths", expect_unsat_covers=()),
    A("c13_2_same", "same file twice, symbolic gap", "thorough", 3000), A("c13_2_deleted_same", "'/a (deleted)' then /a, symbolic gap", "thorough", 3000),
    A("c13_2_diff", "two files, symbolic gap", "thorough", 3000), A("c13_2_file_anon", "file + anonymous, symbolic gap", "thorough", 3000),
    A("c13_2_file_anon_gate", "file + anonymous with a symbolic gate address", "thorough", 3000),
    A("c13_3_fold_adjacent", "file, anonymous, file: adjacent (fold rule)", "thorough", 3000, expect_unsat_covers=NN),
    A("c13_3_fold_hole_before_page", "file, HOLE, anonymous page, same file: no fold across the hole", "thorough", 3000),
    A("c13_3_fold_hole_after_page", "file, anonymous page, HOLE, same file: no fold", "thorough", 3000),
    A("c13_3_fold", "file, anonymous, file: symbolic gaps", "thorough", 3600),
    A("c13_3_fold_other", "file, anonymous, other file", "thorough", 3600),
    A("c13_2_heap_heap", "two [heap] lines, symbolic gap: same-name merge iff contiguous (~500 s)", "thorough"),
    A("c13_3_heap_heap_heap", "three [heap] lines", "thorough"), A("c13_3_anon_heap_anon", "anonymous, [heap], anonymous", "thorough"),
]
