PROPERTY = "C17"
ENCODED = ["linux::mem_reader::MemReader::{ptrace,vmem,read,read_to_vec,new}", "PtraceDumper::copy_from_process"]
BOUNDS = {"target memory": "one readable window of 40 symbolic bytes at a symbolic address BASE (4096 <= BASE); everything else unmapped",
          "request": "start address fully symbolic (all alignments, inside / at the end of / across the end of / outside the window); length is a shape: 1, 7, 8, 9, 12, 16, 23 (ptrace), 1, 9, 24 (vectored), 12 (copy_from_process)",
          "byte fidelity": "checked at a symbolic index of the returned prefix"}
OUTSIDE = ["the three syscalls themselves (PTRACE_PEEKDATA, process_vm_readv, pread on /proc/<pid>/mem are contract stubs)",
           "the /proc/<pid>/mem strategy: it is one pread (FileExt::read_exact_at on a real File) - no crate logic beyond the errno mapping; not executed",
           "the probing fallback chain of MemReader::read after a failed vectored read: it opens /proc/<pid>/mem and drops the resulting io::Error, whose bit-packed representation CBMC cannot decode (spurious free() failures measured) - only the first probe is covered",
           "lengths above 24 bytes; several disjoint readable regions"]
ASSUMPTIONS = ["nix::sys::ptrace::read stub: returns the word at addr iff [addr, addr+8) is inside the readable window, else EIO",
               "nix::sys::uio::process_vm_readv stub: copies the readable prefix of the request (partial transfer), EFAULT if the first byte is unreadable, ENOSYS when the harness disables it",
"std::fmt::format stubbed"]
HARNESSES = [
    H("c17_mem_reader::c17_ptrace_len1", desc="ptrace strategy, 1 byte", expect_unsat_covers=("range runs out of readable memory",)),
    H("c17_mem_reader::c17_ptrace_len7", desc="ptrace strategy, 7 bytes"),
    H("c17_mem_reader::c17_ptrace_len8", desc="ptrace strategy, 8 bytes"),
    H("c17_mem_reader::c17_ptrace_len9", desc="ptrace strategy, 9 bytes"),
    H("c17_mem_reader::c17_ptrace_len12", desc="ptrace strategy, 12 bytes"),
    H("c17_mem_reader::c17_ptrace_len16", desc="ptrace strategy, 16 bytes", tier="thorough"),
    H("c17_mem_reader::c17_ptrace_len23", desc="ptrace strategy, 23 bytes", tier="thorough"),
    H("c17_mem_reader::c17_vmem_len1", desc="vectored read, 1 byte", loops={"stub_process_vm_readv": 42, "process_vm_readv": 42}, expect_unsat_covers=("range runs out of readable memory",)),
    H("c17_mem_reader::c17_vmem_len9", desc="vectored read, 9 bytes", loops={"stub_process_vm_readv": 42, "process_vm_readv": 42}),
    H("c17_mem_reader::c17_vmem_len24", desc="vectored read, 24 bytes", loops={"stub_process_vm_readv": 42, "process_vm_readv": 42}, tier="thorough"),
    H("c17_mem_reader::c17_vec_vmem_len12", desc="read_to_vec over the vectored read (short reads give short vectors)", loops={"stub_process_vm_readv": 42, "process_vm_readv": 42}),
    H("c17_mem_reader::c17_vec_ptrace_len12", desc="read_to_vec over ptrace"),
    H("c17_mem_reader::c17_vec_ptrace_len5", desc="read_to_vec over ptrace, request shorter than a word"),
    H("c17_mem_reader::c17_probe_vmem_len12", desc="copy_from_process: vectored read probed first and kept", loops={"stub_process_vm_readv": 42, "process_vm_readv": 42},
      expect_unsat_covers=("a failing read exists",)),
    H("c17_mem_reader::c17_copy_len0", desc="zero-length request is an error"),
    H("c17_mem_reader::c17_selftest_try_reserve", desc="tool self-test: try_reserve_exact + resize model", tier="thorough"),
    H("c17_mem_reader::c17_selftest_try_reserve_in_result", desc="tool self-test 2", tier="thorough"),
]
