PROPERTY = "C12"
ENCODED = ["linux::ptrace_dumper::PtraceDumper::sanitize_stack_copy", "PtraceDumper::find_mapping_no_bias",
           "maps_reader::MappingInfo::{contains_address,is_executable}"]
BOUNDS = {"stack copy": "0, 8, 12, 16, 20, 24, 32 bytes, every byte symbolic", "sp_offset": "0, 3, 8, 12, 16 (shapes, incl. offset > length)",
          "mappings": "1-3 symbolic mappings: start = k<<12 (16 <= k < 2^35), 1..1024 pages, all 5 permission bits symbolic, pairwise disjoint; "
                      "plus one concrete pair 4 GiB apart (aliasing buckets of the pointer pre-filter)",
          "stack_pointer argument": "fully symbolic usize"}
OUTSIDE = ["mappings larger than 4 MiB (more than 3 pre-filter buckets)", "copies longer than 32 bytes (4 words)", "32-bit targets"]
ASSUMPTIONS = ["mappings pairwise disjoint and kernel range == [start, start+size) (what MappingInfo::aggregate produces on Linux, checked in C13)"]
L = {"extend_with": 300, "sanitize_stack_copy#0": 4, "sanitize_stack_copy#2": 34, "sanitize_stack_copy#4": 9}
NOWORDS = ("a pointer survived", "a word was defaced", "negative small integer seen")
HARNESSES = [
    H("c12_sanitize::c12_len16_off0_m2", loops=L, desc="16 bytes, sp_offset 0, 2 mappings", timeout=900),
    H("c12_sanitize::c12_len24_off8_m2", loops=L, desc="24 bytes, sp_offset 8", timeout=900),
    H("c12_sanitize::c12_len24_off3_m2", loops=L, desc="24 bytes, unaligned sp_offset 3", timeout=900),
    H("c12_sanitize::c12_len20_off0_m2", loops=L, desc="20 bytes: trailing partial word", timeout=900),
    H("c12_sanitize::c12_len8_off16_m1", loops=L, desc="copy shorter than the offset (8 < 16)", expect_unsat_covers=NOWORDS),
    H("c12_sanitize::c12_len12_off12_m1", loops=L, desc="offset rounds up past the end (12 -> 16 > 12)", expect_unsat_covers=NOWORDS),
    H("c12_sanitize::c12_len0", loops=L, desc="empty copy, symbolic offset"),
    H("c12_sanitize::c12_bucket_alias", loops=L, desc="two mappings 4 GiB apart alias in the pre-filter"),
    H("c12_sanitize::c12_len16_off0_m3", loops=L, tier="thorough", desc="3 mappings", timeout=2400),
    H("c12_sanitize::c12_len32_off0_m2", loops=L, tier="thorough", desc="4 words (last-hit cache across 4 words)", timeout=2400),
]
