#!/bin/sh
# Framework setup: nothing to build - the checks are Python 3 (stdlib only) driving the
# pre-installed cargo-kani / cbmc.  Verifies the tools are present.
set -e
cd "$(dirname "$0")"
command -v cargo-kani >/dev/null
command -v cbmc >/dev/null
command -v goto-cc >/dev/null
command -v goto-instrument >/dev/null
command -v rsync >/dev/null
python3 -c "import sys; sys.path.insert(0,'lib'); import runner, kani, overlay, replay"
mkdir -p evidence replays
echo "setup ok"
