#!/usr/bin/env python3
"""tools/loops.py <ID> <harness-substr> : list CBMC loops of a harness (for choosing unwindset patterns)."""
import os, sys
sys.path.insert(0, os.path.join(os.path.dirname(os.path.dirname(os.path.abspath(__file__))), "lib"))
import kani, overlay as ov, runner
pid, sub = sys.argv[1], sys.argv[2]
prop = runner.load_prop(pid)
hs = [h for h in prop.HARNESSES if sub in h.name][:1]
o = ov.Overlay(pid + "-loops", features=getattr(prop, "FEATURES", [])).build()
os.makedirs(o.dir + "/work", exist_ok=True)
metas, _, _ = kani.codegen(o, [h.full for h in hs], o.dir + "/work/cg.log")
m = metas[hs[0].full]
g = kani.prepare(m, o.dir + "/work/prep.log")
pm = kani.pretty_map(m)
for lid, fn, f, line in kani.show_loops(g):
    print("%-4s %-110s %s:%s" % (lid.rsplit(".", 1)[-1], (pm.get(fn) or fn)[:110], os.path.basename(f), line))
o.cleanup()
