#!/bin/sh
# tools/bgchain.sh "<check args>" "<check args>" ... : run checks one after the other, logs in /var/tmp/mdw-logs
mkdir -p /var/tmp/mdw-logs
cd /verif
for a in "$@"; do
  id=$(echo "$a" | awk '{print $1}')
  ./check $a > /var/tmp/mdw-logs/$id.log 2>&1
done
echo CHAIN-DONE > /var/tmp/mdw-logs/chain.done
