#!/bin/sh
# tools/confirm_demo3.sh <ID> <test-target>: second-wave seeded change in /tmp/mut2-<ID> (patch + demo applied):
#  1. demo WITH patch must fail, 2. existing suite WITH patch must pass (demo excluded), 3. demo WITHOUT patch must pass
ID=$1; DEMO=$2; W=${3:-/tmp/mut2-$ID}
cd $W || exit 2
T="--target-dir $W/target --offline"
echo "=== $ID demo WITH patch"; nice -n 10 cargo test $T --test $DEMO 2>&1 | grep -E "^test result|^test .*FAILED|panicked" | head -6
echo "=== $ID suite WITH patch (demo moved away)"
mkdir -p /tmp/muthold-$ID; mv tests/$DEMO.rs /tmp/muthold-$ID/
nice -n 10 cargo test $T --workspace --no-fail-fast 2>&1 | grep -E "^test result|FAILED" | head -12
mv /tmp/muthold-$ID/$DEMO.rs tests/; rmdir /tmp/muthold-$ID
git apply -R OUT/patch.diff || { echo "cannot revert patch"; exit 2; }
echo "=== $ID demo WITHOUT patch"; nice -n 10 cargo test $T --test $DEMO 2>&1 | grep -E "^test result|^test .*FAILED|panicked" | head -6
git apply OUT/patch.diff
echo "=== $ID done"
