#!/bin/sh
# tools/confirm_mutant.sh <worktree> <demo test filter/args>: demo fails with patch, passes without; suite passes with patch
W=$1; shift
cd $W || exit 2
T="--target-dir $W/target --offline"
echo "== demo WITH patch"; cargo test $T "$@" 2>&1 | grep -E "^test result|FAILED|panicked" | head -5
git apply -R OUT/patch.diff || exit 2
echo "== demo WITHOUT patch"; cargo test $T "$@" 2>&1 | grep -E "^test result|FAILED|panicked" | head -5
git apply OUT/patch.diff || exit 2
echo "== existing suite WITH patch (demo excluded)"; cargo test --workspace --no-fail-fast $T -- --skip seeded_demo 2>&1 | grep -E "^test result|FAILED" | head -12
