#!/bin/sh
# tools/confirm_mutant2.sh <ID>: in /tmp/mut-<ID>: ensure patch + demo applied; run demo with / without patch; run suite with patch
ID=$1; W=/tmp/mut-$ID
cd $W || exit 2
T="--target-dir $W/target --offline"
git apply --check OUT/patch.diff 2>/dev/null && git apply OUT/patch.diff
if git apply --check OUT/demo.diff 2>/dev/null; then git apply OUT/demo.diff; fi
echo "== demo WITH patch"; cargo test $T seeded_demo 2>&1 | grep -E "^test result|FAILED|panicked" | grep -v "0 passed; 0 failed" | head -6
git apply -R OUT/patch.diff || exit 2
echo "== demo WITHOUT patch"; cargo test $T seeded_demo 2>&1 | grep -E "^test result|FAILED|panicked" | grep -v "0 passed; 0 failed" | head -6
git apply OUT/patch.diff || exit 2
git apply -R OUT/demo.diff 2>/dev/null || rm -f tests/seeded_demo*.rs
echo "== existing suite WITH patch (demo removed)"; cargo test --workspace --no-fail-fast $T 2>&1 | grep -E "^test result|FAILED" | grep -v "0 passed; 0 failed" | head -8
