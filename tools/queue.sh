#!/bin/sh
# tools/queue.sh: run the commands in /var/tmp/mdw-logs/queue.txt one after the other (lines: "<logname> <env...> ./check args")
Q=/var/tmp/mdw-logs/queue.txt
cd /verif
while true; do
  line=$(head -1 $Q 2>/dev/null)
  if [ -z "$line" ]; then sleep 20; [ -f /var/tmp/mdw-logs/queue.stop ] && exit 0; continue; fi
  sed -i '1d' $Q
  name=$(echo "$line" | awk '{print $1}')
  cmd=$(echo "$line" | cut -d' ' -f2-)
  echo "$(date +%H:%M:%S) START $name: $cmd" >> /var/tmp/mdw-logs/queue.log
  sh -c "$cmd" > /var/tmp/mdw-logs/$name.log 2>&1
  echo "$(date +%H:%M:%S) END $name rc=$?" >> /var/tmp/mdw-logs/queue.log
done
