#!/bin/sh
# tools/confirm_demo.sh <ID>: run the demonstration with and without the patch
ID=$1; W=/tmp/mut-$ID
cd $W || exit 2
T="--target-dir $W/target --offline"
git apply --check OUT/patch.diff 2>/dev/null && git apply OUT/patch.diff
if git apply --check OUT/demo.diff 2>/dev/null; then git apply OUT/demo.diff; fi
ARGS="seeded_demo"
for f in tests/seeded_demo*.rs; do [ -f "$f" ] && ARGS="--test $(basename $f .rs)"; done
grep -q "test_accessible_mapping_after_module_is_not_merged" src/linux/maps_reader.rs 2>/dev/null && ARGS="--lib test_accessible_mapping_after_module_is_not_merged"
echo "== demo WITH patch ($ARGS)"; cargo test $T $ARGS 2>&1 | grep -E "^test result|FAILED" | grep -v "0 passed; 0 failed" | head -4
git apply -R OUT/patch.diff || exit 2
echo "== demo WITHOUT patch"; cargo test $T $ARGS 2>&1 | grep -E "^test result|FAILED" | grep -v "0 passed; 0 failed" | head -4
git apply OUT/patch.diff
