#!/usr/bin/env python3
"""Regenerates /verif/MANIFEST.json from props/*.py (one entry per property config present)."""
import importlib.util, json, os, sys
V = os.path.dirname(os.path.dirname(os.path.abspath(__file__)))
sys.path.insert(0, os.path.join(V, "lib"))
import runner

NOT_APPLICABLE = {}
# properties whose check has been validated on the current tree (others stay listed as pending)
READY = open(os.path.join(V, "props", "READY")).read().split()
PENDING_REASON = "check not built yet in this round (design in DESIGN.md section 5); no claim is made"

checks, na = [], []
ids = ["C%02d" % i for i in range(1, 21)]
for pid in ids:
    path = os.path.join(V, "props", pid + ".py")
    if pid in NOT_APPLICABLE:
        na.append({"property_id": pid, "reason": NOT_APPLICABLE[pid]})
        continue
    if not os.path.exists(path) or pid not in READY:
        na.append({"property_id": pid, "reason": PENDING_REASON})
        continue
    prop = runner.load_prop(pid)
    nq = sum(1 for h in prop.HARNESSES if h.tier == "quick")
    nt = len(prop.HARNESSES)
    enc = "; ".join(getattr(prop, "ENCODED", []))[:600]
    outside = "; ".join(getattr(prop, "OUTSIDE", []))[:900]
    assume = "; ".join(getattr(prop, "ASSUMPTIONS", []))[:900]
    checks.append({
        "property_id": pid,
        "quick_cmd": "./check %s --tier quick" % pid,
        "thorough_cmd": "./check %s --tier thorough" % pid,
        "evidence_file": "/verif/evidence/%s.json" % pid,
        "replay_cmd_template": "./check %s --replay {path}" % pid,
        "engine": "kani-cbmc",
        "level_claimed": {
            "category": "model_checking",
            "text": getattr(prop, "LEVEL_TEXT", "Bounded model checking of the real compiled code (Kani -> CBMC -> CaDiCaL), %d harness instances in the quick tier, %d in the thorough tier; "
                            "each instance is one SAT query over a concrete shape with fully symbolic values, with unwinding assertions on. Within the bounds listed in the evidence file "
                            "every value of the symbolic inputs is covered; nothing is claimed outside them. Functions encoded: %s. Not decided: %s" % (nq, nt, enc, outside)),
            "design_ref": "DESIGN.md section 5 " + pid,
        },
        "level_note": getattr(prop, "LEVEL_NOTE", "Trusted: Kani's MIR->goto translation, CBMC, CaDiCaL. Shapes (counts, Some/None patterns, which call fails) are enumerated, values are symbolic. "
                              "Stubs and assumptions: %s" % assume),
        "technique": getattr(prop, "TECHNIQUE", "solver-based bounded symbolic execution of the real code (Kani/CBMC harnesses, SAT)"),
    })
m = {
    "version": 1,
    "setup_cmd": "./setup.sh",
    "hooks": {
        "guard": "cfg(kani) - applied to a scratch copy of /repo only; /repo itself carries no hooks",
        "enable": "each check rsyncs /repo's working tree to /var/tmp/mdw-verif/<id>.<pid>, appends `#[cfg(kani)] mod verif;` + "
                  "forwarding shims (overlay/shims/**) to the copy and runs cargo kani there",
        "baseline_off_cmd": "cd /repo && cargo test --workspace --no-fail-fast --offline",
        "source_commits": [],
        "add_only": True,
    },
    "engines": [{"name": "kani-cbmc", "path": "/verif/check", "serves_properties": [c["property_id"] for c in checks],
                 "kind_free_text": "Kani 0.68.0 -> CBMC 6.11.0 -> CaDiCaL bounded model checking of the crate's own MIR, "
                                   "driven per harness with explicit unwindsets; native replay via kani concrete playback"}],
    "checks": checks,
    "not_applicable": na,
    "notes": "See DESIGN.md. Exit codes of ./check: 0 held on everything decided, 1 violation (replayed), 2 nothing could be decided.",
}
with open(os.path.join(V, "MANIFEST.json"), "w") as fh:
    json.dump(m, fh, indent=1)
print("checks:", [c["property_id"] for c in checks], "n/a:", len(na))
