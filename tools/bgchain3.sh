#!/bin/sh
mkdir -p /var/tmp/mdw-logs
cd /verif
for a in "$@"; do
  id=$(echo "$a" | awk '{print $1}')
  ./check $a > /var/tmp/mdw-logs/$id.ev.log 2>&1
done
echo CHAIN-DONE > /var/tmp/mdw-logs/chain3.done
