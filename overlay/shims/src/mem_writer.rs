// ---- verif shim (appended to a scratch copy only; see /verif/DESIGN.md 2.1) ----
#[cfg(kani)]
impl Buffer {
    /// A buffer whose backing store is pre-sized (capacity is not observable through Buffer's API).
    pub(crate) fn verif_with_min_capacity(cap: usize, min: usize) -> Self {
        Self {
            inner: Vec::with_capacity(if cap < min { min } else { cap }),
        }
    }
}
