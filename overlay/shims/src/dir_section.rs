// ---- verif shim (appended to a scratch copy only; see /verif/DESIGN.md 2.1) ----
#[cfg(kani)]
impl<'a, W> DirSection<'a, W>
where
    W: Write + Seek,
{
    pub(crate) fn verif_curr_idx(&self) -> usize {
        self.curr_idx
    }
    pub(crate) fn verif_last_position(&self) -> u64 {
        self.last_position_written_to_file
    }
    pub(crate) fn verif_start_offset(&self) -> u64 {
        self.destination_start_offset
    }
    pub(crate) fn verif_dest(&self) -> &W {
        &*self.destination
    }
}
