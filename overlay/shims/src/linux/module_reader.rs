// ---- verif shim (appended to a scratch copy only; see /verif/DESIGN.md 2.1) ----
#[cfg(kani)]
pub(crate) fn verif_section_header_with_name<'sc>(
    section_headers: &'sc elf::SectionHeaders,
    strtab_index: usize,
    name: &[u8],
    module_memory: &mut ProcessMemory<'_>,
) -> Result<Option<&'sc elf::SectionHeader>, Error> {
    section_header_with_name(section_headers, strtab_index, name, module_memory)
}
#[cfg(kani)]
pub(crate) fn verif_build_id_from_bytes(data: &[u8]) -> Vec<u8> {
    build_id_from_bytes(data)
}
#[cfg(kani)]
pub(crate) fn verif_is_executable_section(header: &elf::SectionHeader) -> bool {
    is_executable_section(header)
}
#[cfg(kani)]
impl<'buf> ProcessMemory<'buf> {
    pub(crate) fn verif_read(&mut self, offset: u64, length: u64) -> Result<Buf<'buf>, Error> {
        self.read(offset, length)
    }
    pub(crate) fn verif_absolute(&self, addr: u64) -> u64 {
        self.absolute(addr)
    }
}
#[cfg(kani)]
impl<'buf> ModuleReader<'buf> {
    pub(crate) fn verif_from_parts(module_memory: ProcessMemory<'buf>, header: elf::Header, context: Ctx) -> Self {
        Self { module_memory, header, context }
    }
    pub(crate) fn verif_read_name_from_strtab(&mut self, strtab_offset: u64, strtab_size: u64, name_offset: u64) -> Result<String, Error> {
        self.read_name_from_strtab(strtab_offset, strtab_size, name_offset)
    }
    pub(crate) fn verif_find_build_id_note(&mut self, offset: u64, size: u64, alignment: u64) -> Result<Option<Vec<u8>>, Error> {
        self.find_build_id_note(offset, size, alignment)
    }
}
