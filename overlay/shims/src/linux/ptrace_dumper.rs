// ---- verif shim (appended to a scratch copy only; see /verif/DESIGN.md 2.1) ----
#[cfg(kani)]
impl PtraceDumper {
    /// Fills the module-private field; no logic.
    pub(crate) fn verif_new(
        pid: Pid,
        threads: Vec<Thread>,
        mappings: Vec<MappingInfo>,
        threads_suspended: bool,
        page_size: usize,
        auxv: AuxvDumpInfo,
    ) -> Self {
        Self {
            pid,
            threads_suspended,
            threads,
            auxv,
            mappings,
            page_size,
        }
    }
    pub(crate) fn verif_threads_suspended(&self) -> bool {
        self.threads_suspended
    }
    pub(crate) fn verif_may_be_stack(mapping: Option<&MappingInfo>) -> bool {
        Self::may_be_stack(mapping)
    }
}
#[cfg(kani)]
impl PtraceDumper {
    pub(crate) fn verif_enumerate_mappings(&mut self) -> Result<(), InitError> {
        self.enumerate_mappings()
    }
}
