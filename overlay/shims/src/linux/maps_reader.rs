// ---- verification shim (appended to a scratch copy of src/linux/maps_reader.rs; never part of /repo) ----
#[cfg(kani)]
pub fn verif_sanitize_path(p: OsString) -> OsString {
    sanitize_path(p)
}
#[cfg(kani)]
pub fn verif_is_mapping_a_path(p: Option<&OsStr>) -> bool {
    is_mapping_a_path(p)
}
#[cfg(kani)]
pub fn verif_so_version_parse(p: &OsStr) -> Option<(u32, u32, u32, u32)> {
    SoVersion::parse(p).map(|v| (v.major, v.minor, v.patch, v.prerelease))
}
