// ---- verif shim (appended to a scratch copy only; see /verif/DESIGN.md 2.1) ----
#[cfg(kani)]
impl MinidumpWriter {
    pub(crate) fn verif_generate_dump(
        &mut self,
        buffer: &mut DumpBuf,
        dumper: &mut PtraceDumper,
        soft_errors: ErrorList<WriterError>,
        destination: &mut (impl Write + Seek),
    ) -> Result<()> {
        self.generate_dump(buffer, dumper, soft_errors, destination)
    }
    pub(crate) fn verif_write_file(&self, buffer: &mut DumpBuf, filename: &str) -> std::result::Result<MDLocationDescriptor, MemoryWriterError> {
        self.write_file(buffer, filename)
    }
    pub(crate) fn verif_crash_thread_references_principal_mapping(&self, dumper: &PtraceDumper) -> bool {
        self.crash_thread_references_principal_mapping(dumper)
    }
}
#[cfg(kani)]
pub(crate) fn verif_write_soft_errors(buffer: &mut DumpBuf, soft_errors: ErrorList<WriterError>) -> Result<MDLocationDescriptor> {
    write_soft_errors(buffer, soft_errors)
}
