// ---- verif shim (appended to a scratch copy only; see /verif/DESIGN.md 2.1) ----
/// Forwards to the private `fill_thread_stack`; `cap` = None -> MaxStackLen::None.
#[cfg(kani)]
pub(crate) fn verif_fill_thread_stack(
    config: &mut MinidumpWriter,
    buffer: &mut DumpBuf,
    dumper: &PtraceDumper,
    thread: &mut MDRawThread,
    instruction_ptr: usize,
    stack_ptr: usize,
    cap: Option<usize>,
) -> Result<(), errors::SectionThreadListError> {
    let max = match cap {
        Some(n) => MaxStackLen::Len(n),
        None => MaxStackLen::None,
    };
    fill_thread_stack(config, buffer, dumper, thread, instruction_ptr, stack_ptr, max)
}
