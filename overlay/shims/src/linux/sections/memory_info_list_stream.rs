// ---- verif shim (appended to a scratch copy only; see /verif/DESIGN.md 2.1) ----
#[cfg(kani)]
pub(crate) fn verif_get_memory_protection(permissions: MMPermissions) -> MemoryProtection {
    get_memory_protection(permissions)
}
