// ---- verif shim (appended to a scratch copy only; see /verif/DESIGN.md 2.1) ----
#[cfg(kani)]
pub(crate) fn verif_fill_raw_module(
    buffer: &mut DumpBuf,
    mapping: &MappingInfo,
    identifier: &[u8],
    soname: Option<String>,
) -> Result<MDRawModule, errors::SectionMappingsError> {
    fill_raw_module(buffer, mapping, identifier, soname)
}
