// ---- verif shim (appended to a scratch copy only; see /verif/DESIGN.md 2.1) ----
#[cfg(kani)]
impl MemReader {
    pub(crate) fn verif_ptrace(pid: i32, src: usize, dst: &mut [u8]) -> Result<usize, (nix::Error, usize)> {
        Self::ptrace(nix::unistd::Pid::from_raw(pid), src, dst)
    }
    pub(crate) fn verif_vmem(pid: i32, src: usize, dst: &mut [u8]) -> Result<usize, nix::Error> {
        Self::vmem(nix::unistd::Pid::from_raw(pid), src, dst)
    }
    /// 0 = none yet, 1 = process_vm_readv, 2 = /proc/pid/mem, 3 = ptrace, 4 = unavailable
    pub(crate) fn verif_style(&self) -> u8 {
        match &self.style {
            None => 0,
            Some(Style::VirtualMem) => 1,
            Some(Style::File(_)) => 2,
            Some(Style::Ptrace) => 3,
            Some(Style::Unavailable { .. }) => 4,
        }
    }
}
