// ---- verif shim (appended to a scratch copy only; see /verif/DESIGN.md 2.1) ----
/// Forwards to the private module `dso_debug`.
#[cfg(kani)]
pub(crate) fn verif_write_dso_debug_stream(
    buffer: &mut crate::mem_writer::Buffer,
    blamed_thread: i32,
    auxv: &auxv::AuxvDumpInfo,
) -> Result<crate::minidump_format::MDRawDirectory, errors::SectionDsoDebugError> {
    dso_debug::write_dso_debug_stream(buffer, blamed_thread, auxv)
}
