"""Native confirmation of a solver counterexample (DESIGN.md 2.4).

1. re-run the failing harness through kani-driver with
   `-Z concrete-playback --concrete-playback=print` to obtain the unit test that
   feeds the solver's values to `kani::any()`;
2. for harnesses that use `#[kani::stub]` (which native playback ignores), make
   the same stubs effective natively in the *scratch copy*: crate-local stubbed
   functions get `return <stub>(args);` as the first statement of their body;
   call sites of foreign functions (nix/std) listed in FOREIGN are redirected
   textually to the stub.  If a stub cannot be redirected the replay is
   reported as `solver-only`;
3. run the test with `cargo kani playback` in the dev profile (overflow checks
   on, as Kani models it); `cargo kani playback` of Kani 0.68 has no --release;
4. a replay that panics (or exceeds its time limit for termination harnesses)
   counts as reproduced.
"""
import json
import os
import re
import shutil
import subprocess
import time

import overlay as ov

REPLAY_DIR = os.path.join(ov.VERIF, "replays")

# call-site spellings of foreign functions in the crate's source
FOREIGN = {
    "nix::sys::ptrace::read": [r"nix::sys::ptrace::read\("],
    "nix::sys::ptrace::attach": [r"\bptrace::attach\("],
    "nix::sys::ptrace::detach": [r"\bptrace::detach\("],
    "nix::sys::ptrace::cont": [r"\bptrace::cont\("],
    "nix::sys::wait::waitpid": [r"\bwait::waitpid\("],
    "nix::sys::signal::kill": [r"\bsignal::kill\("],
    "std::fs::File::open": [r"std::fs::File::open\(", r"\bFile::open\("],
    "std::fs::read": [r"std::fs::read\("],
    "std::fs::metadata": [],
    "nix::unistd::sysconf": [r"nix::unistd::sysconf\("],
    "nix::sys::uio::process_vm_readv": [r"nix::sys::uio::process_vm_readv\("],
}
# stubs that only exist to keep the solver fast; natively the real function is fine
BENIGN = ("std::fmt::format", "alloc::fmt::format", "std::hash::RandomState::new", "std::time::SystemTime::now",
          "log::__private_api::log", "std::thread::sleep", "std::time::Instant::now")


def _src_files(root):
    for d, dirs, files in os.walk(os.path.join(root, "src")):
        if os.path.basename(d) == "verif":
            dirs[:] = []
            continue
        for f in files:
            if f.endswith(".rs"):
                yield os.path.join(d, f)


def _find_fn(root, orig):
    """Locate `fn name` for a crate-local path; returns (file, match offset) or None."""
    segs = orig.split("::")
    name = segs[-1]
    cands = []
    for f in _src_files(root):
        with open(f) as fh:
            text = fh.read()
        for m in re.finditer(r"\bfn\s+%s\s*[<(]" % re.escape(name), text):
            cands.append((f, m.start(), text))
    if not cands:
        return None
    if len(cands) > 1:
        def score(c):
            f = c[0]
            return sum(1 for s in segs[:-1] if s.lower() in f.lower() or ("impl %s" % s) in c[2] or ("impl<" in c[2] and s in c[2]))
        cands.sort(key=score, reverse=True)
        if score(cands[0]) == score(cands[1]):
            # same file? prefer the one whose enclosing impl names the type
            pass
    return cands[0][0], cands[0][1]


def _params(sig):
    """parameter names of a signature text `(a: T, mut b: U, &self)`."""
    depth, cur, parts = 0, "", []
    for ch in sig:
        if ch in "(<[{":
            depth += 1
        elif ch in ")>]}":
            depth -= 1
        if ch == "," and depth == 0:
            parts.append(cur)
            cur = ""
        else:
            cur += ch
    if cur.strip():
        parts.append(cur)
    names = []
    for p in parts:
        p = p.strip()
        if not p:
            continue
        if re.match(r"^(&\s*('\w+\s+)?(mut\s+)?)?self\b", p) or p.startswith("mut self"):
            names.append("self")
            continue
        n = p.split(":", 1)[0].strip()
        n = re.sub(r"^mut\s+", "", n)
        names.append(n)
    return names


def redirect_local(root, orig, repl):
    loc = _find_fn(root, orig)
    if not loc:
        return False
    f, off = loc
    with open(f) as fh:
        text = fh.read()
    # parameter list
    i = text.index("(", off)
    depth, j = 0, i
    while True:
        if text[j] == "(":
            depth += 1
        elif text[j] == ")":
            depth -= 1
            if depth == 0:
                break
        j += 1
    names = _params(text[i + 1:j])
    # opening brace of the body: first `{` at angle/paren depth 0 after the params
    k, d2 = j + 1, 0
    while True:
        ch = text[k]
        if ch in "(<[":
            d2 += 1
        elif ch in ")]":
            d2 -= 1
        elif ch == ">" and text[k - 1] != "-":
            d2 -= 1
        elif ch == "{" and d2 <= 0:
            break
        elif ch == ";" and d2 <= 0:
            return False
        k += 1
    call = "if true { return crate::%s(%s); }" % (repl, ", ".join(names))
    text = text[:k + 1] + "\n        " + call + "\n" + text[k + 1:]
    with open(f, "w") as fh:
        fh.write(text)
    return True


def redirect_foreign(root, orig, repl):
    pats = FOREIGN.get(orig)
    if not pats:
        return False
    n = 0
    for f in _src_files(root):
        with open(f) as fh:
            text = fh.read()
        new = text
        for p in pats:
            new = re.sub(p, "crate::%s(" % repl, new)
        if new != text:
            n += 1
            with open(f, "w") as fh:
                fh.write(new)
    return n > 0


def _strip_crate(path):
    return re.sub(r"^(crate::|minidump_writer::)", "", path.replace(" ", ""))


def confirm(pid, outcome, o, meta, workdir):
    """Returns {status: reproduced|not_reproduced|solver-only, path, detail}."""
    h = outcome.h
    short = h.name.replace("::", "__")
    os.makedirs(REPLAY_DIR, exist_ok=True)
    path = os.path.join(REPLAY_DIR, "%s-%s.rs" % (pid, short))
    info = {"status": "solver-only", "path": None, "detail": ""}
    log = os.path.join(workdir, short + ".playback.log")
    cmd = ["cargo", "kani", "-Z", "unstable-options", "--ignore-global-asm", "-Z", "stubbing", "--lib",
           "--target-dir", o.target, "--exact", "--harness", h.full, "--no-assertion-reach-checks",
           "-Z", "concrete-playback", "--concrete-playback=print", "--output-format", "terse"]
    cmd += ["--cbmc-args", "--max-field-sensitivity-array-size", str(h.fs_array)]
    if getattr(outcome, "uset", None):
        cmd += ["--unwindset", ",".join(outcome.uset)]
    env = dict(os.environ, CARGO_NET_OFFLINE="true", CARGO_TERM_COLOR="never")
    try:
        with open(log, "w") as lf:
            subprocess.run(cmd, cwd=o.src, stdout=lf, stderr=subprocess.STDOUT, env=env,
                           timeout=max(600, 3 * h.timeout), preexec_fn=os.setsid)
    except subprocess.TimeoutExpired:
        info["detail"] = "playback generation timed out"
        return _solver_only(pid, outcome, path, info)
    with open(log) as fh:
        out = fh.read()
    tests = re.findall(r"```\s*\n(.*?)```", out, re.S)
    tests = [t for t in tests if "concrete_playback_run" in t]
    if not tests:
        info["detail"] = "kani printed no concrete playback test"
        return _solver_only(pid, outcome, path, info)
    test = tests[0]
    m = re.search(r"fn (kani_concrete_playback_\w+)", test)
    tname = m.group(1)
    header = ("// Replay of a solver counterexample for property %s, harness %s\n"
              "// failing checks: %s\n"
              "// Run: /verif/check %s --replay %s\n"
              "// (the test is appended to the harness file in a scratch overlay of /repo and run with\n"
              "//  `cargo kani playback`, dev profile)\n"
              "// harness: %s\n" % (
                  pid, h.name, "; ".join(f["description"] for f in outcome.failures[:4]), pid, path, h.name))
    with open(path, "w") as fh:
        fh.write(header + test)
    info["path"] = path
    res = run_playback(o, h.name, test, tname, meta, workdir, termination=bool(h.termination))
    info.update(res)
    return info


def _solver_only(pid, outcome, path, info):
    jpath = path[:-3] + ".json"
    with open(jpath, "w") as fh:
        json.dump({"property": pid, "harness": outcome.h.name,
                   "failures": [{k: f[k] for k in ("description", "file", "line", "function")} for f in outcome.failures[:8]],
                   "note": "solver counterexample; no native replay (%s)" % info["detail"]}, fh, indent=1)
    info["path"] = jpath
    info["status"] = "solver-only"
    return info


def run_playback(o, hname, test, tname, meta, workdir, termination=False):
    """Append the test to the harness file in the overlay, make stubs native, run it."""
    mod = hname.split("::")[0]
    hfile = os.path.join(o.src, "src", "verif", mod + ".rs")
    backup = {}

    def save(f):
        if f not in backup:
            with open(f) as fh:
                backup[f] = fh.read()

    for f in list(_src_files(o.src)) + [hfile]:
        save(f)
    detail = []
    try:
        with open(hfile, "a") as fh:
            fh.write("\n#[cfg(test)]\nmod verif_replay_%s {\n    use super::*;\n%s\n}\n" % (tname[-8:], test))
        stubs = meta.get("attributes", {}).get("stubs", []) or []
        unredirected = []
        for s in stubs:
            orig, repl = _strip_crate(s["original"]), _strip_crate(s["replacement"])
            if orig in BENIGN:
                continue
            ok = redirect_foreign(o.src, orig, repl) if orig in FOREIGN else redirect_local(o.src, orig, repl)
            if not ok:
                unredirected.append(orig)
        if unredirected:
            return {"status": "solver-only", "detail": "stubs not redirectable natively: %s" % ", ".join(unredirected)}
        results = {}
        # dev profile only (debug assertions and overflow checks on: the profile Kani models);
        # `cargo kani playback` of Kani 0.68 rejects --release
        for profile in ("dev",):
            cmd = ["cargo", "kani", "playback", "-Z", "concrete-playback", "--lib"]
            cmd += ["--", tname, "--exact-match-placeholder"]
            cmd = [c for c in cmd if c != "--exact-match-placeholder"]
            log = os.path.join(workdir, "%s.%s.test.log" % (tname, profile))
            env = dict(os.environ, CARGO_NET_OFFLINE="true", CARGO_TERM_COLOR="never", RUST_BACKTRACE="0")
            t0 = time.time()
            try:
                with open(log, "w") as lf:
                    p = subprocess.run(cmd, cwd=o.src, stdout=lf, stderr=subprocess.STDOUT, env=env,
                                       timeout=900, preexec_fn=os.setsid)
                rc = p.returncode
            except subprocess.TimeoutExpired:
                rc = "timeout"
            with open(log) as fh:
                txt = fh.read()
            if rc == "timeout":
                results[profile] = "hang" if termination else "timeout"
            elif re.search(r"test result: FAILED|panicked at", txt):
                m = re.search(r"panicked at ([^\n]*)\n([^\n]*)", txt)
                results[profile] = "panic: %s" % (" ".join(m.groups())[:200] if m else "")
            elif re.search(r"test result: ok. 1 passed", txt):
                results[profile] = "passed"
            elif "error" in txt and "could not compile" in txt:
                results[profile] = "build-error"
                detail.append(_first_error(txt))
            else:
                results[profile] = "unknown(rc=%s)" % rc
        repro = [p for p, r in results.items() if r.startswith("panic") or r == "hang"]
        if repro:
            st = "reproduced"
        elif all(r == "passed" for r in results.values()):
            st = "not_reproduced"
        else:
            st = "solver-only"
        return {"status": st, "detail": "; ".join(["%s: %s" % kv for kv in results.items()] + detail)}
    finally:
        for f, t in backup.items():
            with open(f, "w") as fh:
                fh.write(t)


def _first_error(txt):
    m = re.search(r"(error(\[E\d+\])?: [^\n]*\n[^\n]*\n)", txt)
    return m.group(1)[:300] if m else ""


def replay_file(pid, path, prop):
    """`check <ID> --replay <path>`: re-run a stored replay test against /repo's current tree."""
    import kani
    with open(path) as fh:
        text = fh.read()
    if path.endswith(".json"):
        print(text)
        print("solver-only record: re-run `/verif/check %s` to regenerate the counterexample" % pid)
        return 2
    m = re.search(r"^// harness: (\S+)", text, re.M)
    t = re.search(r"fn (kani_concrete_playback_\w+)", text)
    if not m or not t:
        print("not a replay file")
        return 2
    hname, tname = m.group(1), t.group(1)
    test = text[text.index("#[test]"):] if "#[test]" in text else text
    pre = text[:text.index("#[test]")] if "#[test]" in text else ""
    doc = "\n".join(l for l in pre.splitlines() if l.startswith("///"))
    o = ov.Overlay(pid + "-replay", features=getattr(prop, "FEATURES", []))
    o.build()
    workdir = os.path.join(o.dir, "work")
    os.makedirs(workdir, exist_ok=True)
    metas, _, _ = kani.codegen(o, ["verif::" + hname], os.path.join(workdir, "codegen.log"))
    res = run_playback(o, hname, doc + "\n" + test, tname, metas["verif::" + hname], workdir)
    print("replay %s: %s (%s)" % (hname, res["status"], res["detail"]))
    o.cleanup()
    return 1 if res["status"] == "reproduced" else 0
