"""check runner: overlay -> codegen -> per-harness CBMC -> verdicts -> replay ->
known-findings filter -> evidence.  See DESIGN.md section 2.4."""
import concurrent.futures
import importlib.util
import json
import os
import random
import re
import shutil
import sys
import threading
import time

import kani
import overlay as ov
import replay as rp

VERIF = ov.VERIF
EVIDENCE_DIR = os.path.join(VERIF, "evidence")
REPLAY_DIR = os.path.join(VERIF, "replays")
KNOWN = os.path.join(VERIF, "known_findings.json")

# property classes whose FAILURE is not a property violation
COVER = "cover"
UNWIND = ("unwind", "recursion")
UNSUPPORTED = ("unsupported_construct",)


class H:
    """One harness instance (= one solver query)."""

    def __init__(self, name, tier="quick", unwind=None, loops=None, recursion=None, timeout=600,
                 mem_gb=16, desc="", covers=None, termination=None, stubs=None, bounds=None,
                 weight=1, expect_unsat_covers=(), fs_array=512, rotate=False, est_gb=3):
        self.name = name            # path below `verif::`, e.g. c15_thread_names::c15_n1_named
        self.tier = tier            # quick harnesses also run in thorough
        self.unwind = unwind        # global unwind (None: harness attribute, default 2)
        self.loops = loops or {}    # {pretty-name substring: bound}
        self.recursion = {"drop_glue": 1} if recursion is None else recursion
        self.timeout = timeout
        self.mem_gb = mem_gb
        self.desc = desc
        self.termination = termination or []  # loop patterns whose unwinding failure IS the violation
        self.bounds = bounds or {}
        self.weight = weight
        self.expect_unsat_covers = expect_unsat_covers
        self.fs_array = fs_array  # cbmc --max-field-sensitivity-array-size (default 64 loses constants in >64-element arrays)
        self.rotate = rotate
        self.est_gb = est_gb    # expected peak RSS, used for admission (sum of running estimates <= VERIF_MEM_GB)

    @property
    def full(self):
        return "verif::" + self.name


def load_prop(pid):
    path = os.path.join(VERIF, "props", pid + ".py")
    if not os.path.exists(path):
        raise SystemExit("no such property config: %s" % path)
    spec = importlib.util.spec_from_file_location("prop_" + pid, path)
    mod = importlib.util.module_from_spec(spec)
    mod.H = H
    spec.loader.exec_module(mod)
    return mod


def load_known():
    if not os.path.exists(KNOWN):
        return {"known": [], "fixed": []}
    with open(KNOWN) as fh:
        return json.load(fh)


class HarnessOutcome:
    def __init__(self, h):
        self.h = h
        self.state = "not_run"   # pass | violation | inconclusive
        self.reason = ""
        self.failures = []       # [{property, description, file, line, function, class}]
        self.covers = []         # [(description, satisfied)]
        self.nprops = 0
        self.nsuccess = 0
        self.result = None
        self.unwind_report = []
        self.wall = 0.0
        self.witness = None


def run_harness(h, meta, workdir, default_unwind=2):
    out = HarnessOutcome(h)
    t0 = time.time()
    short = h.name.replace("::", "__")
    log = os.path.join(workdir, short + ".prep.log")
    try:
        goto = kani.prepare(meta, log)
        unwind = h.unwind or meta["attributes"].get("unwind_value") or default_unwind
        uset, rep = kani.build_unwindset(goto, meta, h.loops, h.recursion)
        out.unwind_report = rep
        out.unwind = unwind
    except Exception as e:  # noqa
        out.state, out.reason = "inconclusive", "prepare failed: %s" % e
        return out
    res = kani.run_cbmc(goto, unwind, uset, h.timeout, h.mem_gb, os.path.join(workdir, short + ".cbmc.json"),
                        fs_array=h.fs_array)
    out.result = res
    out.wall = time.time() - t0
    out.goto = goto
    out.uset = uset
    if res.status != "ok":
        out.state = "inconclusive"
        out.reason = "cbmc %s after %.0fs (max rss %.1f GB) %s" % (res.status, res.wall, res.max_rss_gb,
                                                                   "; ".join(res.messages)[:200])
        return out
    out.nprops = len(res.props)
    unwind_fail, unsupported, term_viol = [], [], []
    for p in res.props:
        cls = kani.classify(p)
        st = p.get("status")
        sl = p.get("sourceLocation", {})
        rec = {"property": p.get("property"), "description": p.get("description", "").strip('"'),
               "file": sl.get("file", ""), "line": sl.get("line", ""), "function": sl.get("function", ""),
               "class": cls}
        if cls == COVER:
            out.covers.append((rec["description"], st == "FAILURE" or st == "SATISFIED"))
            continue
        if st == "SUCCESS":
            out.nsuccess += 1
            continue
        if cls in UNWIND or "unwinding assertion" in rec["description"] or "recursion unwinding" in rec["description"]:
            fn = rec["function"]
            if any(t in fn or t in rec["property"] for t in h.termination):
                rec["description"] = "loop does not terminate within %s iterations: %s" % (
                    "its bound", rec["description"])
                rec["class"] = "termination"
                rec["trace"] = p.get("trace")
                term_viol.append(rec)
            else:
                unwind_fail.append(rec)
            continue
        if cls in UNSUPPORTED:
            unsupported.append(rec)
            continue
        rec["trace"] = p.get("trace")
        out.failures.append(rec)
    out.failures += term_viol
    if out.failures:
        out.state = "violation"
        out.unwind_fail = unwind_fail
        return out
    if unwind_fail:
        out.state = "inconclusive"
        out.reason = "unwinding bound too small: " + "; ".join(
            "%s (%s:%s)" % (u["function"][:80], os.path.basename(u["file"]), u["line"]) for u in unwind_fail[:4])
        return out
    if unsupported:
        out.state = "inconclusive"
        out.reason = "unsupported construct reachable: " + "; ".join(u["description"][:120] for u in unsupported[:3])
        return out
    unsat = [d for d, ok in out.covers if not ok and d not in h.expect_unsat_covers]
    if unsat or not out.covers:
        out.state = "inconclusive"
        out.reason = "vacuity witness not satisfied: %s" % (unsat or "no cover in harness")
        return out
    out.state = "pass"
    return out


def select(prop, tier, seed, only):
    hs = [h for h in prop.HARNESSES if tier == "thorough" or h.tier == "quick"]
    if only:
        hs = [h for h in hs if any(o in h.name for o in only)]
    budget = getattr(prop, "QUICK_ROTATE", None)
    if tier == "quick" and budget:
        # fixed core + a seeded rotation over the `rotate` group
        core = [h for h in hs if not getattr(h, "rotate", False)]
        rot = [h for h in hs if getattr(h, "rotate", False)]
        rnd = random.Random(seed)
        rnd.shuffle(rot)
        hs = core + rot[:budget]
    return hs


def finding_key(pid, out, f):
    return {"property": pid, "harness": out.h.name, "file": f["file"], "description": f["description"]}


def match_known(known, pid, harness, f):
    for k in known.get("known", []):
        if k.get("property") != pid:
            continue
        if "harness_re" in k and not re.search(k["harness_re"], harness):
            continue
        if "file" in k and not f["file"].endswith(k["file"]):
            continue
        if "function_re" in k and not re.search(k["function_re"], f["function"]):
            continue
        if "description_re" in k and not re.search(k["description_re"], f["description"]):
            continue
        return k
    return None


def main(argv):
    import argparse
    ap = argparse.ArgumentParser()
    ap.add_argument("property")
    ap.add_argument("--tier", default=os.environ.get("VERIF_TIER", "quick"), choices=["quick", "thorough"])
    ap.add_argument("--only", action="append", default=[])
    ap.add_argument("--jobs", type=int, default=int(os.environ.get("VERIF_JOBS", "16")))
    ap.add_argument("--replay", default=None)
    ap.add_argument("--no-replay", action="store_true")
    ap.add_argument("--no-evidence", action="store_true")
    ap.add_argument("--keep", action="store_true")
    args = ap.parse_args(argv)
    pid = args.property
    try:
        seed = int(os.environ.get("VERIF_SEED", "0"))
    except ValueError:
        seed = 0
    if args.keep:
        os.environ["VERIF_KEEP_SCRATCH"] = "1"
    prop = load_prop(pid)
    t_start = time.time()
    if args.replay:
        return rp.replay_file(pid, args.replay, prop)
    hs = select(prop, args.tier, seed, args.only)
    if not hs:
        print("no harness selected")
        return 2
    print("[%s] tier=%s seed=%d harnesses=%d" % (pid, args.tier, seed, len(hs)), flush=True)
    o = ov.Overlay(pid, features=getattr(prop, "FEATURES", []))
    try:
        o.build()
    except ov.OverlayError as e:
        print("INCONCLUSIVE overlay: %s" % e)
        return 2
    workdir = os.path.join(o.dir, "work")
    os.makedirs(workdir, exist_ok=True)
    try:
        metas, cg_s, stubs_log = kani.codegen(o, [h.full for h in hs], os.path.join(workdir, "codegen.log"))
    except kani.KaniError as e:
        tail = ""
        try:
            with open(os.path.join(workdir, "codegen.log")) as fh:
                lines = [l for l in fh.read().splitlines() if "error" in l.lower()]
                tail = "\n".join(lines[:20])
        except Exception:
            pass
        print("INCONCLUSIVE harness out of date or build failure: %s\n%s" % (e, tail))
        if not args.no_evidence:
            write_evidence(pid, prop, args.tier, seed, [], time.time() - t_start, o, 0, [], note="build failed: %s" % e)
        return 2
    print("[%s] overlay+codegen %.0fs, %d stubs applied" % (pid, cg_s, len(stubs_log)), flush=True)
    outcomes = []
    lock = threading.Lock()

    budget = float(os.environ.get("VERIF_MEM_GB", "44"))
    cond = threading.Condition()
    in_use = [0.0]

    def work(h):
        need = min(h.est_gb, budget)
        with cond:
            while in_use[0] + need > budget:
                cond.wait()
            in_use[0] += need
        try:
            r = run_harness(h, metas[h.full], workdir)
        finally:
            with cond:
                in_use[0] -= need
                cond.notify_all()
        with lock:
            tag = {"pass": "ok  ", "violation": "FAIL", "inconclusive": "??? "}.get(r.state, r.state)
            extra = r.reason if r.state != "pass" else "%d checks" % r.nprops
            if r.state == "violation":
                extra = "; ".join("%s (%s:%s)" % (f["description"][:70], os.path.basename(f["file"]), f["line"])
                                  for f in r.failures[:3])
            print("  %s %-46s %6.0fs  %s" % (tag, h.name, r.wall, extra), flush=True)
        return r

    order = sorted(hs, key=lambda h: -h.weight)
    with concurrent.futures.ThreadPoolExecutor(max_workers=max(1, args.jobs)) as ex:
        outcomes = list(ex.map(work, order))

    known = load_known()
    violations, known_hits, inconclusive = [], [], []
    nreplayed = 0
    for r in outcomes:
        if r.state == "inconclusive":
            inconclusive.append(r)
        if r.state != "violation":
            continue
        # one report per (harness, location/description); replay each harness once
        rep = None
        only_termination = all(f.get("class") == "termination" for f in r.failures)
        if only_termination:
            # an unbounded loop would make the native replay hang: the unwinding-assertion verdict is reported as is
            rep = {"status": "solver-only", "path": None, "detail": "termination violation (no native replay: it would not return)"}
        elif r.wall > float(os.environ.get("VERIF_REPLAY_MAX_S", "400")):
            # regenerating the counterexample through kani-driver costs another full solver run
            rep = {"status": "solver-only", "path": None, "detail": "harness too slow for a second solver run (%.0f s)" % r.wall}
        elif not args.no_replay and nreplayed < int(os.environ.get("VERIF_MAX_REPLAYS", "2")):
            # native replay costs ~1-2 min per harness: the first failing harnesses are replayed,
            # the others are reported with the solver's verdict only
            nreplayed += 1
            rep = rp.confirm(pid, r, o, metas[r.h.full], workdir)
        for f in dedup(r.failures):
            k = match_known(known, pid, r.h.name, f)
            entry = {"harness": r.h.name, "failure": {x: f[x] for x in ("description", "file", "line", "function", "class")},
                     "replay": rep}
            if k:
                known_hits.append((k, entry))
            else:
                violations.append(entry)
    rc = 0
    seen_known = set()
    for k, entry in known_hits:
        if k["id"] in seen_known:
            continue
        seen_known.add(k["id"])
        print("KNOWN-FINDING: property=%s %s [%s]" % (pid, k["what"], k["id"]))
    unreproduced = []
    for v in violations:
        rep = v["replay"] or {}
        if rep.get("status") == "not_reproduced":
            unreproduced.append(v)
            continue
        path = rep.get("path") or write_trace_only(pid, v)
        print("VIOLATION property=%s replay=%s" % (pid, path))
        print("  harness=%s %s at %s:%s [%s]" % (v["harness"], v["failure"]["description"], v["failure"]["file"],
                                                  v["failure"]["line"], rep.get("status", "solver-only")))
        rc = 1
    for v in unreproduced:
        print("INCONCLUSIVE counterexample did not reproduce natively: harness=%s %s" % (
            v["harness"], v["failure"]["description"]))
    for r in inconclusive:
        print("INCONCLUSIVE harness=%s %s" % (r.h.name, r.reason))
    decided = [r for r in outcomes if r.state in ("pass", "violation")]
    if rc == 0 and (unreproduced or not decided):
        rc = 2
    if rc == 0 and inconclusive and os.environ.get("VERIF_STRICT"):
        rc = 2
    if not args.no_evidence:
        write_evidence(pid, prop, args.tier, seed, outcomes, time.time() - t_start, o, cg_s, stubs_log,
                       violations=len(violations) - len(unreproduced), known=[k["id"] for k, _ in known_hits])
    print("[%s] done in %.0fs: %d pass, %d violation, %d inconclusive -> exit %d" % (
        pid, time.time() - t_start, sum(r.state == "pass" for r in outcomes),
        sum(r.state == "violation" for r in outcomes), len(inconclusive), rc), flush=True)
    o.cleanup()
    return rc


def dedup(failures):
    seen, out = set(), []
    for f in failures:
        k = (f["file"], f["line"], f["description"])
        if k in seen:
            continue
        seen.add(k)
        out.append(f)
    return out


def write_trace_only(pid, v):
    os.makedirs(REPLAY_DIR, exist_ok=True)
    path = os.path.join(REPLAY_DIR, "%s-%s.json" % (pid, v["harness"].replace("::", "__")))
    with open(path, "w") as fh:
        json.dump({"property": pid, "harness": v["harness"], "failure": v["failure"],
                   "note": "solver counterexample; native replay unavailable for this harness"}, fh, indent=1)
    return path


def write_evidence(pid, prop, tier, seed, outcomes, wall, o, cg_s, stubs_log, violations=0, known=(), note=None):
    os.makedirs(EVIDENCE_DIR, exist_ok=True)
    decided = [r for r in outcomes if r.state in ("pass", "violation")]
    nontrivial = [r for r in outcomes if r.state == "pass" and r.covers and all(ok for d, ok in r.covers
                                                                               if d not in r.h.expect_unsat_covers)]
    # safety/functional obligations; kani::cover! witnesses are reported separately per sample
    obligations = sum(r.nprops - len(r.covers) for r in decided)
    discharged = sum(r.nsuccess for r in decided)
    samples = []
    for r in outcomes:
        s = {"harness": r.h.name, "what": r.h.desc, "verdict": r.state, "wall_s": round(r.wall, 1),
             "unwind": getattr(r, "unwind", None), "loop_bounds": r.unwind_report,
             "bounds": r.h.bounds, "checks": r.nprops, "checks_success": r.nsuccess,
             "vacuity_covers": [{"cover": d, "satisfied": ok} for d, ok in r.covers]}
        if r.result is not None:
            s["cbmc"] = {"status": r.result.status, "symex_s": r.result.symex_s, "solver_s": r.result.solver_s,
                         "program_steps": r.result.steps, "vccs": r.result.vccs,
                         "max_rss_gb": round(r.result.max_rss_gb, 2)}
        if r.state != "pass":
            s["reason"] = r.reason or [f["description"] for f in r.failures[:5]]
        samples.append(s)
    ev = {
        "property_id": pid,
        "tier": tier,
        "seed": seed,
        "level": "model_checking",
        "coverage": {
            "evaluations": len(decided),
            "distinct_nontrivial": len(nontrivial),
            "rule": "one evaluation = one bounded-model-checking query (Kani/CBMC/CaDiCaL) over one harness instance "
                    "(a concrete shape with fully symbolic values); an instance is non-trivial when CBMC decided every "
                    "property (no unwinding-assertion failure, no timeout) and every kani::cover! vacuity witness of the "
                    "harness is SATISFIED; instances are distinct by shape.",
            "samples": samples,
            "obligations": obligations,
            "discharged": discharged,
            "not_decided": [{"harness": r.h.name, "reason": r.reason} for r in outcomes if r.state == "inconclusive"],
            "functions_encoded": getattr(prop, "ENCODED", []),
            "bounds": getattr(prop, "BOUNDS", {}),
            "outside_the_claim": getattr(prop, "OUTSIDE", []),
            "stubs_applied": sorted(set(stubs_log)),
            "shims_appended_to_scratch_copy": o.shims_applied,
            "solver_seconds": round(sum((r.result.solver_s if r.result else 0) for r in outcomes), 1),
            "cbmc_wall_seconds": round(sum(r.wall for r in outcomes), 1),
            "codegen_seconds": round(cg_s, 1),
            "repo_src_hash": ov.repo_tree_hash(),
            "engine": "kani 0.68.0 / cbmc 6.11.0 / cadical; encoding regenerated from /repo working tree on this run",
            "known_findings_hit": sorted(set(known)),
            "exhaustive": False,
        },
        "assumptions": getattr(prop, "ASSUMPTIONS", []),
        "wall_s": round(wall, 1),
        "violations": violations,
    }
    if note:
        ev["coverage"]["note"] = note
    if len(decided) == 0:
        ev["coverage"]["evaluations"] = 0
    with open(os.path.join(EVIDENCE_DIR, pid + ".json"), "w") as fh:
        json.dump(ev, fh, indent=1)
