"""Zero-hook source overlay: a scratch copy of /repo's working tree with the
harness module and forwarding shims appended (DESIGN.md section 2.1).

Nothing here writes to /repo.  The scratch directory (copy + Kani target
directory) lives under $VERIF_SCRATCH (default /var/tmp/mdw-verif) and is
removed by the caller (`Overlay.cleanup`, also registered with atexit).
"""
import atexit
import hashlib
import os
import shutil
import subprocess
import time

VERIF = os.path.dirname(os.path.dirname(os.path.abspath(__file__)))
REPO = os.environ.get("VERIF_REPO", "/repo")
SCRATCH_ROOT = os.environ.get("VERIF_SCRATCH", "/var/tmp/mdw-verif")
SHIMS = os.path.join(VERIF, "overlay", "shims")
HARNESS = os.path.join(VERIF, "harness")

LIB_PREFIX = '#![cfg_attr(kani, recursion_limit = "1024")]\n#![cfg_attr(kani, feature(allocator_api))]\n'
LIB_SUFFIX = "\n#[cfg(kani)]\nmod verif;\n"


def _sweep_stale(max_age_s=6 * 3600):
    """Remove scratch directories whose owning process is gone."""
    if not os.path.isdir(SCRATCH_ROOT):
        return
    for name in os.listdir(SCRATCH_ROOT):
        path = os.path.join(SCRATCH_ROOT, name)
        pid = name.rsplit(".", 1)[-1]
        if not (os.path.isdir(path) and "." in name and pid.isdigit()):
            continue  # not one of ours
        if not os.path.exists("/proc/%s" % pid):
            shutil.rmtree(path, ignore_errors=True)


def repo_tree_hash():
    """Hash of the source files of /repo's working tree (for evidence)."""
    h = hashlib.sha256()
    for root, dirs, files in os.walk(os.path.join(REPO, "src")):
        dirs.sort()
        for f in sorted(files):
            p = os.path.join(root, f)
            h.update(os.path.relpath(p, REPO).encode())
            with open(p, "rb") as fh:
                h.update(fh.read())
    return h.hexdigest()[:16]


class Overlay:
    def __init__(self, tag, features=None):
        _sweep_stale()
        os.makedirs(SCRATCH_ROOT, exist_ok=True)
        self.dir = os.path.join(SCRATCH_ROOT, "%s.%d" % (tag, os.getpid()))
        self.src = os.path.join(self.dir, "crate")
        self.target = os.path.join(self.dir, "target")
        self.shims_applied = []
        self.features = features or []
        atexit.register(self.cleanup)

    def cleanup(self):
        if os.environ.get("VERIF_KEEP_SCRATCH"):
            return
        shutil.rmtree(self.dir, ignore_errors=True)

    def build(self):
        t0 = time.time()
        shutil.rmtree(self.dir, ignore_errors=True)
        os.makedirs(self.src)
        subprocess.run(
            ["rsync", "-a", "--delete", "--exclude", "/target", "--exclude", "/.git",
             REPO.rstrip("/") + "/", self.src + "/"],
            check=True,
        )
        # harness module
        vdir = os.path.join(self.src, "src", "verif")
        os.makedirs(vdir, exist_ok=True)
        for f in sorted(os.listdir(HARNESS)):
            if f.endswith(".rs"):
                shutil.copy(os.path.join(HARNESS, f), os.path.join(vdir, f))
        # constants for C14's concrete test image, computed by an independent reader
        import elfmini
        elfmini.emit(os.path.join(self.src, "src", "linux", "module_reader.rs"), os.path.join(vdir, "c14_tiny_elf_data.rs"))
        # lib.rs: recursion limit (first line) + `mod verif;` (appended)
        lib = os.path.join(self.src, "src", "lib.rs")
        with open(lib) as fh:
            text = fh.read()
        with open(lib, "w") as fh:
            fh.write(LIB_PREFIX + text + LIB_SUFFIX)
        # shims: appended to the END of the copied files, original line
        # numbers shift by exactly two lines in lib.rs only.
        for root, _dirs, files in os.walk(SHIMS):
            for f in sorted(files):
                sp = os.path.join(root, f)
                rel = os.path.relpath(sp, SHIMS)
                dst = os.path.join(self.src, rel)
                if not os.path.exists(dst):
                    raise OverlayError("shim target %s no longer exists in /repo" % rel)
                with open(sp) as fh:
                    shim = fh.read()
                with open(dst, "a") as fh:
                    fh.write("\n" + shim)
                self.shims_applied.append(rel)
        # failspot `enabled` feature (C11) - flagset is already in Cargo.lock
        if "failspot" in self.features:
            ct = os.path.join(self.src, "Cargo.toml")
            with open(ct) as fh:
                t = fh.read()
            t = t.replace('failspot = "0.2.0"\n', 'failspot = { version = "0.2.0", features = ["enabled"] }\n', 1)
            with open(ct, "w") as fh:
                fh.write(t)
        cfgdir = os.path.join(self.src, ".cargo")
        os.makedirs(cfgdir, exist_ok=True)
        with open(os.path.join(cfgdir, "config.toml"), "w") as fh:
            fh.write("[net]\noffline = true\n")
        self.build_s = time.time() - t0
        return self


class OverlayError(Exception):
    pass
