"""Driving Kani/CBMC on the overlay (DESIGN.md section 2.4).

Two steps, so that every harness can have its own `--unwindset`:
  1. `cargo kani --only-codegen --harness ...` once per check: kani-compiler
     turns the crate's MIR into one goto binary per harness;
  2. per harness (in parallel): the same goto-cc / goto-instrument pipeline
     kani-driver runs, then `cbmc --json-ui` with the harness' loop and
     recursion bounds, parsed here.
"""
import glob
import json
import os
import re
import resource
import signal
import subprocess
import threading
import time

KANI_HOME = os.path.expanduser("~/.kani/kani-0.68.0")
KANI_LIB_C = os.path.join(KANI_HOME, "library", "kani", "kani_lib.c")
TRIPLE = "x86_64-unknown-linux-gnu"

CBMC_BASE = [
    "cbmc", "--no-malloc-may-fail", "--no-undefined-shift-check", "--no-signed-overflow-check",
    "--nan-check", "--no-self-loops-to-assumptions", "--no-pointer-primitive-check",
    "--object-bits", "16", "--sat-solver", "cadical", "--slice-formula",
]


class KaniError(Exception):
    pass


def _unlimited_stack():
    try:
        resource.setrlimit(resource.RLIMIT_STACK, (resource.RLIM_INFINITY, resource.RLIM_INFINITY))
    except Exception:
        pass
    os.setsid()


def codegen(overlay, harness_names, log_path, extra_args=()):
    """Run kani-compiler for the selected harnesses.  Returns {short name: meta}."""
    cmd = ["cargo", "kani", "-Z", "unstable-options", "--ignore-global-asm", "-Z", "stubbing",
           "--lib", "--target-dir", overlay.target, "--only-codegen", "--exact",
           "--no-assertion-reach-checks"]
    if "failspot" in overlay.features:
        pass
    for h in harness_names:
        cmd += ["--harness", h]
    cmd += list(extra_args)
    env = dict(os.environ, CARGO_NET_OFFLINE="true", CARGO_TERM_COLOR="never")
    t0 = time.time()
    with open(log_path, "w") as log:
        p = subprocess.run(cmd, cwd=overlay.src, stdout=log, stderr=subprocess.STDOUT, env=env)
    dt = time.time() - t0
    if p.returncode != 0:
        raise KaniError("codegen failed (exit %d), see %s" % (p.returncode, log_path))
    metas = {}
    pat = os.path.join(overlay.target, "kani", TRIPLE, "debug", "build", "minidump-writer", "*", "out",
                       "*.kani-metadata.json")
    for mf in glob.glob(pat):
        with open(mf) as fh:
            m = json.load(fh)
        for h in m.get("proof_harnesses", []):
            if h["pretty_name"] in harness_names:
                prev = metas.get(h["pretty_name"])
                if prev is None or os.path.getmtime(h["goto_file"]) > os.path.getmtime(prev["goto_file"]):
                    metas[h["pretty_name"]] = h
    missing = [h for h in harness_names if h not in metas]
    if missing:
        raise KaniError("harnesses not generated: %s" % ", ".join(missing))
    stubs_log = []
    for m in metas.values():
        for s in m.get("attributes", {}).get("stubs", []) or []:
            stubs_log.append("%s -> %s" % (s["original"].replace(" ", ""), s["replacement"].replace(" ", "")))
    return metas, dt, sorted(set(stubs_log))


def _run(cmd, log, timeout=600):
    p = subprocess.run(cmd, stdout=log, stderr=subprocess.STDOUT, timeout=timeout)
    if p.returncode != 0:
        raise KaniError("command failed (%d): %s" % (p.returncode, " ".join(cmd[:3])))


def prepare(meta, log_path):
    """goto-cc / goto-instrument steps of kani-driver.  Returns path of the final goto binary."""
    symtab = meta["goto_file"]
    base = symtab[: -len(".symtab.out")]
    out = base + ".out"
    final = base + ".verif.out"
    with open(log_path, "a") as log:
        if not os.path.exists(out) or os.path.getmtime(out) < os.path.getmtime(symtab):
            _run(["goto-cc", symtab, KANI_LIB_C, "-o", out], log)
        _run(["goto-cc", out, "--function", meta["mangled_name"], "-o", final], log)
        _run(["goto-instrument", "--add-library", "--no-malloc-may-fail", final, final], log)
        _run(["goto-instrument", "--generate-function-body-options", "assert-false-assume-false",
              "--generate-function-body", ".*", "--drop-unused-functions", final, final], log)
        _run(["goto-instrument", "--ensure-one-backedge-per-target", final, final], log)
    return final


def pretty_map(meta):
    p = meta["goto_file"][: -len(".symtab.out")] + ".pretty_name_map.json"
    with open(p) as fh:
        return json.load(fh)


def show_loops(goto):
    """[(loop id, function symbol, file, line)]"""
    loops = []
    data = None
    for _attempt in range(3):
        p = subprocess.run(["cbmc", "--show-loops", "--json-ui", goto], stdout=subprocess.PIPE,
                           stderr=subprocess.DEVNULL, timeout=900)
        try:
            data = json.loads(p.stdout)
            break
        except Exception:
            time.sleep(2)
    if data is None:
        raise KaniError("cbmc --show-loops produced no parsable output")
    for item in data:
        for lp in item.get("loops", []) if isinstance(item, dict) else []:
            sl = lp.get("sourceLocation", {})
            loops.append((lp["name"], sl.get("function", ""), sl.get("file", ""), sl.get("line", "")))
    return loops


def build_unwindset(goto, meta, spec, recursion):
    """spec: {substring of pretty function name (or file:line): bound} for loops;
    recursion: {substring of pretty function name: bound} for function symbols.
    Returns (list of 'id:n', report)."""
    pm = pretty_map(meta)
    items, report = [], []
    if spec:
        for lid, fn, f, line in show_loops(goto):
            pretty = pm.get(fn, fn)
            best = None
            idx = lid.rsplit(".", 1)[-1]
            for pat, n in spec.items():
                # "name#k": the k-th loop (CBMC numbering) of a function whose pretty name contains `name`
                if "#" in pat:
                    nm, k = pat.rsplit("#", 1)
                    hit = nm in pretty and k == idx
                else:
                    hit = pat in pretty or pat == "%s:%s" % (os.path.basename(f), line)
                if hit:
                    if best is None or len(pat) > len(best[0]):
                        best = (pat, n)
            if best:
                items.append("%s:%d" % (lid, best[1]))
                report.append({"loop": "%s @%s:%s" % (pretty[:120], os.path.basename(f), line), "bound": best[1]})
    if recursion:
        seen = set()
        for mangled, pretty in pm.items():
            if not mangled.startswith("_R") or not pretty:
                continue
            for pat, n in recursion.items():
                if pat in pretty and mangled not in seen:
                    seen.add(mangled)
                    items.append("%s:%d" % (mangled, n))
        report.append({"recursion_bounded_symbols": len(seen), "patterns": recursion})
    return items, report


_mem_lock = threading.Lock()
_rss_table = {}


class CbmcResult:
    def __init__(self):
        self.status = "error"  # ok | timeout | oom | error
        self.props = []        # list of dicts
        self.wall = 0.0
        self.solver_s = 0.0
        self.symex_s = 0.0
        self.max_rss_gb = 0.0
        self.messages = []
        self.vccs = None
        self.steps = None


def run_cbmc(goto, unwind, unwindset, timeout_s, mem_gb, out_json, trace=False, fs_array=512):
    cmd = list(CBMC_BASE) + ["--unwind", str(unwind), "--max-field-sensitivity-array-size", str(fs_array)]
    if unwindset:
        cmd += ["--unwindset", ",".join(unwindset)]
    if trace:
        cmd += ["--trace"]
    cmd += [goto, "--json-ui", "--verbosity", "8"]
    res = CbmcResult()
    t0 = time.time()
    with open(out_json, "w") as out:
        p = subprocess.Popen(cmd, stdout=out, stderr=subprocess.STDOUT, preexec_fn=_unlimited_stack)
        killed = None
        while True:
            try:
                p.wait(timeout=2)
                break
            except subprocess.TimeoutExpired:
                pass
            try:
                with open("/proc/%d/statm" % p.pid) as fh:
                    rss = int(fh.read().split()[1]) * 4096 / 2**30
                res.max_rss_gb = max(res.max_rss_gb, rss)
            except Exception:
                rss = 0
            try:
                with open("/proc/meminfo") as fh:
                    avail = [int(l.split()[1]) for l in fh if l.startswith("MemAvailable")][0] / 2**20
            except Exception:
                avail = 99
            with _mem_lock:
                _rss_table[p.pid] = rss
                biggest = max(_rss_table.values()) if _rss_table else 0
            if rss > mem_gb:
                killed = "oom"
            elif avail < 4 and rss >= biggest and rss > 4:
                # machine-wide guard: the largest cbmc gives way before the kernel OOM killer picks at random
                killed = "oom"
            elif time.time() - t0 > timeout_s:
                killed = "timeout"
            if killed:
                try:
                    os.killpg(p.pid, signal.SIGKILL)
                except Exception:
                    p.kill()
                p.wait()
                break
    res.wall = time.time() - t0
    with _mem_lock:
        _rss_table.pop(p.pid, None)
    if killed:
        res.status = killed
        return res
    try:
        with open(out_json) as fh:
            data = json.load(fh)
    except Exception as e:
        res.status = "error"
        res.messages.append("unparsable cbmc output: %s (exit %s)" % (e, p.returncode))
        return res
    got_result = False
    for item in data:
        if not isinstance(item, dict):
            continue
        if "result" in item:
            got_result = True
            res.props = item["result"]
        mt = item.get("messageText")
        if mt:
            m = re.match(r"Runtime (Solver|decision procedure): ([0-9.]+)s", mt)
            if m:
                res.solver_s += float(m.group(2))
            m = re.match(r"Runtime Symex: ([0-9.]+)s", mt)
            if m:
                res.symex_s = float(m.group(1))
            m = re.match(r"Generated (\d+) VCC\(s\), (\d+) remaining", mt)
            if m:
                res.vccs = (int(m.group(1)), int(m.group(2)))
            m = re.match(r"size of program expression: (\d+) steps", mt)
            if m:
                res.steps = int(m.group(1))
            if item.get("messageType") == "ERROR":
                res.messages.append(mt[:300])
    if not got_result:
        # e.g. "Out of memory" abort, invariant violation
        txt = " ".join(res.messages).lower()
        res.status = "oom" if "memory" in txt else "error"
        return res
    res.status = "ok"
    return res


def classify(prop):
    """Property class from CBMC property name `<function>.<class>.<n>`."""
    name = prop.get("property", "")
    parts = name.rsplit(".", 2)
    if len(parts) == 3:
        return parts[1]
    return "other"
