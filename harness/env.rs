//! Environment contract stubs shared by the harnesses (DESIGN.md 2.3).
//! Every stub records what the code under test asked for in ghost statics, and
//! serves arbitrary (symbolic) data constrained only by the syscall contract.
use crate::{
    errors::{CopyFromProcessError, DumperError},
    Pid,
};

pub const MAX_CALLS: usize = 6;
pub const SERVE_MAX: usize = 32;

/// ghost log of copy_from_process requests
pub static mut COPY_N: usize = 0;
pub static mut COPY_PID: [Pid; MAX_CALLS] = [0; MAX_CALLS];
pub static mut COPY_SRC: [usize; MAX_CALLS] = [0; MAX_CALLS];
pub static mut COPY_LEN: [usize; MAX_CALLS] = [0; MAX_CALLS];
/// bytes served per call (the "target memory" at COPY_SRC[i]..)
pub static mut COPY_DATA: [[u8; SERVE_MAX]; MAX_CALLS] = [[0; SERVE_MAX]; MAX_CALLS];
pub static mut COPY_SERVED: [usize; MAX_CALLS] = [0; MAX_CALLS];
/// harness knobs (concrete): how many bytes a call returns at most, and which call fails
pub static mut COPY_SERVE: usize = 16;
pub static mut COPY_FAIL_AT: usize = usize::MAX;
/// true: only requests of at least COPY_SERVE bytes are considered (assume) and exactly
/// COPY_SERVE bytes come back, so the returned Vec has a *concrete* length even when the
/// requested length is symbolic (a symbolic Vec length is a symbolic shape for CBMC).
pub static mut COPY_ASSUME_LONG: bool = false;

pub fn copy_reset(serve: usize, fail_at: usize) {
    unsafe {
        COPY_N = 0;
        COPY_SERVE = serve;
        COPY_FAIL_AT = fail_at;
        COPY_ASSUME_LONG = false;
    }
}
/// as copy_reset, for callers whose request length is symbolic but known to be >= serve
pub fn copy_reset_long(serve: usize, fail_at: usize) {
    copy_reset(serve, fail_at);
    unsafe {
        COPY_ASSUME_LONG = true;
    }
}

fn copy_err(pid: Pid, src: usize, length: usize) -> DumperError {
    DumperError::CopyFromProcessError(CopyFromProcessError {
        child: pid,
        src,
        offset: 0,
        length,
        source: nix::errno::Errno::EFAULT,
    })
}

/// Contract stub for `PtraceDumper::copy_from_process`: `length == 0` is an
/// error (as in the real function); otherwise the call either fails (when the
/// harness says so) or returns min(length, COPY_SERVE) arbitrary bytes, which
/// are remembered as "what the target contained at src".
pub fn stub_copy_from_process(pid: Pid, src: usize, length: usize) -> Result<Vec<u8>, DumperError> {
    unsafe {
        let n = COPY_N;
        assert!(n < MAX_CALLS, "ghost log too small");
        COPY_PID[n] = pid;
        COPY_SRC[n] = src;
        COPY_LEN[n] = length;
        COPY_N = n + 1;
        if length == 0 || n == COPY_FAIL_AT {
            COPY_SERVED[n] = 0;
            return Err(copy_err(pid, src, length));
        }
        let data: [u8; SERVE_MAX] = kani::any();
        COPY_DATA[n] = data;
        if COPY_ASSUME_LONG {
            kani::assume(length >= COPY_SERVE);
            COPY_SERVED[n] = COPY_SERVE;
            return Ok(data[..COPY_SERVE].to_vec());
        }
        let k = if length < COPY_SERVE { length } else { COPY_SERVE };
        COPY_SERVED[n] = k;
        Ok(data[..k].to_vec())
    }
}

/// `std::fmt::format` stub: message text is never the subject.
pub fn stub_format(_args: core::fmt::Arguments<'_>) -> String {
    // an allocated (capacity 1) empty string: dropping a capacity-0 String created here gave
    // spurious `free` failures inside generate_dump (tool artefact, DESIGN.md 0.5)
    String::with_capacity(1)
}

/// Model of `Vec::<u8>::resize(new_len, 0)` without the per-byte `extend_with` loop (measured:
/// ~0.3 s of symbolic execution per byte; a 1232-byte CPU context took 530 s).  The crate only
/// ever resizes byte vectors with the value 0, which the model asserts; the fill is a memset,
/// which CBMC handles natively.
pub fn stub_vec_resize<T: Clone, A: std::alloc::Allocator>(v: &mut Vec<T, A>, new_len: usize, value: T) {
    assert!(core::mem::size_of::<T>() == 1, "resize model is for byte vectors");
    let b: u8 = unsafe { core::mem::transmute_copy(&value) };
    assert!(b == 0, "resize model is for zero fill");
    let len = v.len();
    if new_len > len {
        let n = new_len - len;
        v.reserve(n);
        unsafe {
            core::ptr::write_bytes(v.as_mut_ptr().add(len), 0u8, n);
            v.set_len(new_len);
        }
    } else {
        v.truncate(new_len);
    }
}

/// Layout model of minidump-common's (derived) little-endian serializer for CONTEXT_AMD64.
/// The real one costs ~8 min of symbolic execution per context (512-iteration byte loop through
/// scroll); harnesses that write whole thread lists use this model instead, and
/// `c16_context` checks the real serializer against the same offsets.
pub fn stub_context_try_into_ctx<'a>(
    this: &'a minidump_common::format::CONTEXT_AMD64,
    dst: &mut [u8],
    _ctx: scroll::Endian,
) -> Result<usize, scroll::Error>
where
    'a: 'a, // makes the lifetime early-bound so the generic parameter count matches the impl's
{
    const SIZE: usize = 1232;
    assert!(dst.len() >= SIZE);
    for b in dst[..0x30].iter_mut() {
        *b = 0;
    }
    dst[0x30..0x34].copy_from_slice(&this.context_flags.to_le_bytes());
    dst[0x34..0x38].copy_from_slice(&this.mx_csr.to_le_bytes());
    dst[0x38..0x3a].copy_from_slice(&this.cs.to_le_bytes());
    dst[0x3a..0x3c].copy_from_slice(&this.ds.to_le_bytes());
    dst[0x3c..0x3e].copy_from_slice(&this.es.to_le_bytes());
    dst[0x3e..0x40].copy_from_slice(&this.fs.to_le_bytes());
    dst[0x40..0x42].copy_from_slice(&this.gs.to_le_bytes());
    dst[0x42..0x44].copy_from_slice(&this.ss.to_le_bytes());
    dst[0x44..0x48].copy_from_slice(&this.eflags.to_le_bytes());
    let regs = [
        this.dr0, this.dr1, this.dr2, this.dr3, this.dr6, this.dr7, this.rax, this.rcx, this.rdx, this.rbx, this.rsp,
        this.rbp, this.rsi, this.rdi, this.r8, this.r9, this.r10, this.r11, this.r12, this.r13, this.r14, this.r15,
        this.rip,
    ];
    let mut k = 0;
    while k < 23 {
        dst[0x48 + 8 * k..0x50 + 8 * k].copy_from_slice(&regs[k].to_le_bytes());
        k += 1;
    }
    dst[0x100..0x300].copy_from_slice(&this.float_save);
    unsafe {
        core::ptr::write_bytes(dst.as_mut_ptr().add(0x300), 0u8, SIZE - 0x300);
    }
    Ok(SIZE)
}

/// Ghost-logging replacements used by the thread-list harnesses.  Reading a > 512-byte image
/// buffer back after ~60 array updates makes CBMC's array post-processing run out of memory
/// (measured: 16 GB within 5 min for ONE thread), so these harnesses observe what is handed to the
/// image builder instead of the image bytes; that the builder places it correctly is C16.
pub const LOG_MAX: usize = 4;
pub static mut CTX_N: usize = 0;
/// rip, rsp, rax, r15, rsi per serialized context
pub static mut CTX_LOG: [[u64; 5]; LOG_MAX] = [[0; 5]; LOG_MAX];
pub static mut CTX_XMM0: [u32; LOG_MAX] = [0; LOG_MAX];
pub static mut CTX_FLAGS: [u32; LOG_MAX] = [0; LOG_MAX];

pub fn stub_context_log<'a>(
    this: &'a minidump_common::format::CONTEXT_AMD64,
    dst: &mut [u8],
    _ctx: scroll::Endian,
) -> Result<usize, scroll::Error>
where
    'a: 'a,
{
    assert!(dst.len() >= 1232);
    unsafe {
        let n = CTX_N;
        assert!(n < LOG_MAX);
        CTX_LOG[n] = [this.rip, this.rsp, this.rax, this.r15, this.rsi];
        CTX_XMM0[n] = u32::from_le_bytes([this.float_save[160], this.float_save[161], this.float_save[162], this.float_save[163]]);
        CTX_FLAGS[n] = this.context_flags;
        CTX_N = n + 1;
    }
    Ok(1232)
}

pub static mut THREAD_LOG: [Option<minidump_common::format::MINIDUMP_THREAD>; LOG_MAX] = [None, None, None, None];
pub static mut THREAD_SETS: usize = 0;

/// `MemoryArrayWriter::<T>::set_value_at` for T = MINIDUMP_THREAD: remembers (index, value).
pub fn stub_set_value_at_log<T>(
    _this: &mut crate::mem_writer::MemoryArrayWriter<T>,
    _buffer: &mut crate::mem_writer::Buffer,
    val: T,
    index: usize,
) -> Result<(), crate::mem_writer::MemoryWriterError>
where
    T: scroll::ctx::TryIntoCtx<scroll::Endian, Error = scroll::Error> + scroll::ctx::SizeWith<scroll::Endian>,
{
    assert!(core::mem::size_of::<T>() == core::mem::size_of::<minidump_common::format::MINIDUMP_THREAD>());
    assert!(index < LOG_MAX);
    unsafe {
        let t: minidump_common::format::MINIDUMP_THREAD = core::mem::transmute_copy(&val);
        core::mem::forget(val);
        THREAD_LOG[index] = Some(t);
        THREAD_SETS += 1;
    }
    Ok(())
}

/// process_vm_readv(2) contract stub that feeds the same ghost log as `stub_copy_from_process`:
/// used next to it so that a writer which reads target memory through `MemReader` directly
/// (bypassing `copy_from_process`) is observed as well.  Always transfers the whole request.
pub fn stub_process_vm_readv_log(
    pid: nix::unistd::Pid,
    local: &mut [std::io::IoSliceMut<'_>],
    remote: &[nix::sys::uio::RemoteIoVec],
) -> nix::Result<usize> {
    unsafe {
        let n = COPY_N;
        assert!(n < MAX_CALLS, "ghost log too small");
        let len = remote[0].len;
        COPY_PID[n] = pid.as_raw();
        COPY_SRC[n] = remote[0].base;
        COPY_LEN[n] = len;
        COPY_N = n + 1;
        if n == COPY_FAIL_AT {
            COPY_SERVED[n] = 0;
            return Err(nix::errno::Errno::EFAULT);
        }
        assert!(len <= SERVE_MAX, "harness bound: requests through the vectored read are at most SERVE_MAX bytes");
        let data: [u8; SERVE_MAX] = kani::any();
        COPY_DATA[n] = data;
        COPY_SERVED[n] = len;
        local[0][..len].copy_from_slice(&data[..len]);
        Ok(len)
    }
}

/// `Buffer::with_capacity(n)` with a pre-sized backing store: dump() starts from capacity 0 and
/// would re-allocate (allocate + copy + free) eight times on the way to a 600-byte image.
pub fn stub_buffer_with_capacity(cap: usize) -> crate::mem_writer::Buffer {
    crate::mem_writer::Buffer::verif_with_min_capacity(cap, 1024)
}
