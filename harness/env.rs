//! Environment contract stubs shared by the harnesses (DESIGN.md 2.3).
//! Every stub records what the code under test asked for in ghost statics, and
//! serves arbitrary (symbolic) data constrained only by the syscall contract.
use crate::{
    errors::{CopyFromProcessError, DumperError},
    Pid,
};

pub const MAX_CALLS: usize = 6;
pub const SERVE_MAX: usize = 32;

/// ghost log of copy_from_process requests
pub static mut COPY_N: usize = 0;
pub static mut COPY_PID: [Pid; MAX_CALLS] = [0; MAX_CALLS];
pub static mut COPY_SRC: [usize; MAX_CALLS] = [0; MAX_CALLS];
pub static mut COPY_LEN: [usize; MAX_CALLS] = [0; MAX_CALLS];
/// bytes served per call (the "target memory" at COPY_SRC[i]..)
pub static mut COPY_DATA: [[u8; SERVE_MAX]; MAX_CALLS] = [[0; SERVE_MAX]; MAX_CALLS];
pub static mut COPY_SERVED: [usize; MAX_CALLS] = [0; MAX_CALLS];
/// harness knobs (concrete): how many bytes a call returns at most, and which call fails
pub static mut COPY_SERVE: usize = 16;
pub static mut COPY_FAIL_AT: usize = usize::MAX;
/// true: only requests of at least COPY_SERVE bytes are considered (assume) and exactly
/// COPY_SERVE bytes come back, so the returned Vec has a *concrete* length even when the
/// requested length is symbolic (a symbolic Vec length is a symbolic shape for CBMC).
pub static mut COPY_ASSUME_LONG: bool = false;

pub fn copy_reset(serve: usize, fail_at: usize) {
    unsafe {
        COPY_N = 0;
        COPY_SERVE = serve;
        COPY_FAIL_AT = fail_at;
        COPY_ASSUME_LONG = false;
    }
}
/// as copy_reset, for callers whose request length is symbolic but known to be >= serve
pub fn copy_reset_long(serve: usize, fail_at: usize) {
    copy_reset(serve, fail_at);
    unsafe {
        COPY_ASSUME_LONG = true;
    }
}

fn copy_err(pid: Pid, src: usize, length: usize) -> DumperError {
    DumperError::CopyFromProcessError(CopyFromProcessError {
        child: pid,
        src,
        offset: 0,
        length,
        source: nix::errno::Errno::EFAULT,
    })
}

/// Contract stub for `PtraceDumper::copy_from_process`: `length == 0` is an
/// error (as in the real function); otherwise the call either fails (when the
/// harness says so) or returns min(length, COPY_SERVE) arbitrary bytes, which
/// are remembered as "what the target contained at src".
pub fn stub_copy_from_process(pid: Pid, src: usize, length: usize) -> Result<Vec<u8>, DumperError> {
    unsafe {
        let n = COPY_N;
        assert!(n < MAX_CALLS, "ghost log too small");
        COPY_PID[n] = pid;
        COPY_SRC[n] = src;
        COPY_LEN[n] = length;
        COPY_N = n + 1;
        if length == 0 || n == COPY_FAIL_AT {
            COPY_SERVED[n] = 0;
            return Err(copy_err(pid, src, length));
        }
        let data: [u8; SERVE_MAX] = kani::any();
        COPY_DATA[n] = data;
        if COPY_ASSUME_LONG {
            kani::assume(length >= COPY_SERVE);
            COPY_SERVED[n] = COPY_SERVE;
            return Ok(data[..COPY_SERVE].to_vec());
        }
        let k = if length < COPY_SERVE { length } else { COPY_SERVE };
        COPY_SERVED[n] = k;
        Ok(data[..k].to_vec())
    }
}

/// `std::fmt::format` stub: message text is never the subject.
pub fn stub_format(_args: core::fmt::Arguments<'_>) -> String {
    String::new()
}
