//! C15 - thread names are attached to the right threads.
//! Enc: sections::thread_names_stream::write + mem_writer::write_string_to_location.
use super::util::*;
use crate::{
    linux::{ptrace_dumper::Thread, sections::thread_names_stream},
    mem_writer::Buffer,
    minidump_format::MDStreamType,
};

/// Names are concrete per thread slot (a symbolic name makes the length of the
/// UTF-16 vector symbolic for CBMC: measured OOM at 17 min); ids are symbolic.
/// Slot i uses NAMES[i]: ASCII, 2-byte UTF-8, surrogate pair, empty.
const NAMES: [&str; 4] = ["ab", "\u{e9}", "\u{1d11e}x", ""];

fn check_shape<const T: usize>(named: [bool; T]) {
    check_names::<T>(named, &NAMES)
}

/// `names[i]` is the (concrete) name of slot i when `named[i]`.
fn check_names<const T: usize>(named: [bool; T], names: &[&str]) {
    let mut tids = [0i32; T];
    let mut threads = Vec::with_capacity(T);
    for i in 0..T {
        tids[i] = kani::any();
        kani::assume(tids[i] > 0);
        let name = if named[i] { Some(String::from(names[i])) } else { None };
        threads.push(Thread { tid: tids[i], name });
    }
    let d = dumper(threads, Vec::new(), 4096);
    let mut buf = Buffer::with_capacity(256);
    // arbitrary earlier content so RVAs are not zero-based
    let pre: [u8; 4] = kani::any();
    buf.write_all(&pre);

    let res = thread_names_stream::write(&mut buf, &d);
    let dirent = match res {
        Ok(d) => d,
        Err(e) => {
            core::mem::forget(e);
            core::mem::forget(d);
            panic!("thread_names_stream::write failed on valid input");
        }
    };
    let mut n_named = 0usize;
    for i in 0..T {
        if named[i] {
            n_named += 1;
        }
    }
    let img: &[u8] = &buf;
    assert_eq!(dirent.stream_type, MDStreamType::ThreadNamesStream as u32);
    let rva = dirent.location.rva as usize;
    assert_eq!(rva, 4);
    assert_eq!(dirent.location.data_size as usize, 4 + 12 * n_named);
    assert_eq!(rd_u32(img, rva) as usize, n_named, "count == number of named threads");
    // entry j <-> j-th named thread
    let mut j = 0usize;
    let arr_end = rva + 4 + 12 * n_named;
    let mut prev_end = arr_end;
    let mut total = 4 + 4 + 12 * n_named;
    for i in 0..T {
        if !named[i] {
            continue;
        }
        let mut units = [0u16; 4];
        let mut nunits = 0usize;
        for u in names[i].encode_utf16() {
            units[nunits] = u;
            nunits += 1;
        }
        let e = rva + 4 + 12 * j;
        assert!(e + 12 <= arr_end);
        assert_eq!(rd_u32(img, e), tids[i] as u32, "entry j carries the j-th named thread's id");
        let name_rva = rd_u64(img, e + 4) as usize;
        assert!(name_rva >= prev_end, "name blob overlaps neither the array nor earlier blobs");
        assert!(name_rva + 4 + 2 * nunits <= img.len(), "name blob inside image");
        assert_eq!(rd_u32(img, name_rva) as usize, 2 * nunits, "blob length header");
        for k in 0..nunits {
            assert_eq!(rd_u16(img, name_rva + 4 + 2 * k), units[k], "name units");
        }
        prev_end = name_rva + 4 + 2 * nunits;
        total += 4 + 2 * nunits;
        j += 1;
    }
    assert_eq!(img.len(), total, "unnamed threads leave no trace");
    kani::cover!(j == n_named, "every named thread was checked");
    kani::cover!(true, "end of harness reached");
    core::mem::forget(d);
}

macro_rules! shape {
    ($name:ident, $t:expr, $pat:expr) => {
        #[kani::proof]
        #[kani::unwind(8)]
        fn $name() {
            check_shape::<$t>($pat);
        }
    };
}

shape!(c15_n1_named, 1, [true]);
shape!(c15_n1_unnamed, 1, [false]);
shape!(c15_n2_un_na, 2, [false, true]);
shape!(c15_n2_na_un, 2, [true, false]);
shape!(c15_n2_na_na, 2, [true, true]);
shape!(c15_n3_un_na_na, 3, [false, true, true]);
shape!(c15_n3_na_un_na, 3, [true, false, true]);
shape!(c15_n3_un_un_na, 3, [false, false, true]);
shape!(c15_n3_na_na_un, 3, [true, true, false]);
shape!(c15_n4_un_na_un_na, 4, [false, true, false, true]);
shape!(c15_n4_na_un_na_na, 4, [true, false, true, true]);

// An EMPTY (but readable) name is still a name: the thread gets an entry with a zero-length string.
macro_rules! named_shape {
    ($name:ident, $t:expr, $pat:expr, $names:expr) => {
        #[kani::proof]
        #[kani::unwind(8)]
        fn $name() {
            check_names::<$t>($pat, &$names);
        }
    };
}
named_shape!(c15_n1_empty, 1, [true], [""]);
named_shape!(c15_n2_empty_na, 2, [true, true], ["", "ab"]);
named_shape!(c15_n2_na_empty, 2, [true, true], ["ab", ""]);
named_shape!(c15_n3_na_empty_un, 3, [true, true, false], ["\u{e9}", "", "x"]);
