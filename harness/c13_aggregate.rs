//! C13 - mapping aggregation preserves the address-space picture.
//! Enc: MappingInfo::aggregate (+ sanitize_path, is_mapping_a_path, is_empty_page, end_address).
//! Names are concrete per instance (a shape); addresses, sizes, gaps, permissions, offsets and
//! the vDSO address are symbolic.
use super::util::*;
use crate::linux::maps_reader::{MappingInfo, LINUX_GATE_LIBRARY_NAME};
use procfs_core::process::{MMPermissions, MMapPath, MemoryMap, MemoryMaps};
use std::ffi::OsString;

#[derive(Clone, Copy, PartialEq)]
pub enum Nm {
    Anon,
    A,
    ADeleted,
    B,
    Heap,
    Vdso,
}

fn path_of(n: Nm) -> MMapPath {
    match n {
        Nm::Anon => MMapPath::Anonymous,
        Nm::A => MMapPath::Path("/a".into()),
        Nm::ADeleted => MMapPath::Path("/a (deleted)".into()),
        Nm::B => MMapPath::Path("/b".into()),
        Nm::Heap => MMapPath::Heap,
        Nm::Vdso => MMapPath::Vdso,
    }
}
/// Names are compared as small ids (string comparisons on symbolically selected &str unroll memcmp
/// to its bound on every use): 0 = none, 1 = "/a", 2 = "/b", 3 = "[heap]", 4 = "[vdso]", 5 = linux-gate.so
fn id_of_input(n: Nm) -> u8 {
    match n {
        Nm::Anon => 0,
        Nm::A | Nm::ADeleted => 1,
        Nm::B => 2,
        Nm::Heap => 3,
        Nm::Vdso => 4,
    }
}
fn id_is_path(id: u8) -> bool {
    id == 1 || id == 2
}
fn id_of_output(n: &Option<OsString>) -> u8 {
    // the candidate names differ in (length, second byte): no byte-wise comparison loops
    match n {
        None => 0,
        Some(s) => {
            let b = s.as_encoded_bytes();
            match (b.len(), if b.len() > 1 { b[1] } else { 0 }) {
                (2, b'a') => 1,
                (2, b'b') => 2,
                (6, b'h') => 3,
                (6, b'v') => 4,
                (13, b'i') => 5,
                _ => 99,
            }
        }
    }
}

pub fn stub_random_state_new() -> std::hash::RandomState {
    // no map is ever hashed into; the keys are irrelevant (the real one calls getrandom)
    unsafe { core::mem::zeroed() }
}

fn run<const N: usize>(names: [Nm; N], with_gate: bool) {
    run_g::<N>(names, with_gate, None)
}

/// `gaps`: Some = the gap (in pages) before each line is concrete (adjacency is then a shape and the
/// merge conditions fold partially); None = symbolic 0..2 pages.
fn run_g<const N: usize>(names: [Nm; N], with_gate: bool, gaps: Option<[u64; N]>) {
    let k0: u64 = kani::any();
    kani::assume(k0 >= 16 && k0 < (1u64 << 34));
    let mut s = [0u64; N];
    let mut e = [0u64; N];
    let mut perms = [MMPermissions::NONE; N];
    let mut off = [0u64; N];
    let mut lines: Vec<MemoryMap> = Vec::with_capacity(N);
    let mut cur = k0 << 12;
    for i in 0..N {
        let gap: u64 = match gaps {
            Some(g) => g[i],
            None => kani::any(),
        };
        let pages: u64 = kani::any();
        kani::assume(gap <= 2 && pages >= 1 && pages <= 8);
        s[i] = cur + (gap << 12);
        e[i] = s[i] + (pages << 12);
        cur = e[i];
        let pb: u8 = kani::any();
        perms[i] = MMPermissions::from_bits_truncate(pb & 0x1f);
        off[i] = kani::any();
        lines.push(MemoryMap {
            address: (s[i], e[i]),
            perms: perms[i],
            offset: off[i],
            dev: (0, 0),
            inode: 0,
            pathname: path_of(names[i]),
            extension: Default::default(),
        });
    }
    let gate: Option<u64> = if with_gate { Some(kani::any()) } else { None };
    let maps: MemoryMaps = unsafe { core::mem::transmute::<Vec<MemoryMap>, MemoryMaps>(lines) };
    let res = MappingInfo::aggregate(maps, gate);
    let out = match res {
        Ok(v) => v,
        Err(err) => {
            core::mem::forget(err);
            panic!("aggregate failed on a well-formed memory map");
        }
    };
    let m = out.len();
    assert!(m >= 1 && m <= N);
    // effective names after gate renaming
    let mut name = [0u8; N];
    for i in 0..N {
        name[i] = id_of_input(names[i]);
        if let Some(g) = gate {
            if !id_is_path(name[i]) && s[i] == g {
                name[i] = 5;
            }
        }
    }
    // (1) ascending, non-overlapping; kernel range inside the extent
    for j in 0..m {
        let o = &out[j];
        assert!(o.size > 0);
        assert!(o.system_mapping_info.start_address >= o.start_address);
        assert!(o.system_mapping_info.end_address <= o.start_address + o.size, "kernel range inside the extent");
        if j + 1 < m {
            assert!(o.start_address + o.size <= out[j + 1].start_address, "ascending without overlap");
        }
    }
    // (2) every line in exactly one output; (3) hull of consecutive lines; (4) merges only when allowed
    let mut owner = [usize::MAX; N];
    for i in 0..N {
        let mut cnt = 0;
        for j in 0..m {
            let o = &out[j];
            if o.start_address as u64 <= s[i] && e[i] <= (o.start_address + o.size) as u64 {
                owner[i] = j;
                cnt += 1;
            }
        }
        assert_eq!(cnt, 1, "every line lies in exactly one derived mapping");
        if i > 0 {
            assert!(owner[i] == owner[i - 1] || owner[i] == owner[i - 1] + 1, "lines are grouped consecutively, in order");
        }
    }
    for j in 0..m {
        let o = &out[j];
        let mut first = usize::MAX;
        let mut last = 0;
        for i in 0..N {
            if owner[i] == j {
                if first == usize::MAX {
                    first = i;
                }
                last = i;
            }
        }
        assert!(first != usize::MAX, "no derived mapping without a line");
        assert_eq!(o.start_address as u64, s[first], "extent starts with its first line");
        assert_eq!((o.start_address + o.size) as u64, e[last], "extent ends with its last line");
        assert_eq!(o.system_mapping_info.start_address as u64, s[first]);
        // the derived mapping is named after its first line
        assert_eq!(id_of_output(&o.name), name[first], "mapping named after its first line");
        if name[first] == 5 && first == last {
            assert_eq!(o.offset, 0, "gate mapping has offset 0");
        }
        let head_is_path = id_is_path(name[first]);
        let mut exec_so_far = perms[first].contains(MMPermissions::EXECUTE);
        for i in first + 1..=last {
            assert_eq!(e[i - 1], s[i], "only contiguous lines are merged");
            let same = name[i] != 0 && name[i] == name[first];
            let gap_line = perms[i] == MMPermissions::PRIVATE;
            let after_exec = gap_line && head_is_path && exec_so_far && (off[i] == 0 || off[i] == e[i - 1]);
            let between = gap_line && head_is_path && name[i] == 0 && off[i] == 0 && i + 1 <= last && name[i + 1] == name[first];
            assert!(same || after_exec || between, "merge only for same name / reserved gap after or inside a file mapping");
            if same {
                exec_so_far = exec_so_far || perms[i].contains(MMPermissions::EXECUTE);
            }
        }
    }
    // same-file contiguous lines ARE merged (the module extent of C08 relies on it)
    for i in 1..N {
        if e[i - 1] == s[i] && name[i] != 0 && name[i] == name[i - 1] {
            assert_eq!(owner[i], owner[i - 1], "contiguous lines with the same name are merged");
        }
    }
    kani::cover!(m < N, "a merge happened");
    kani::cover!(m == N, "no merge happened");
    core::mem::forget(out);
}

macro_rules! agg {
    ($name:ident, $n:expr, $names:expr, $gate:expr) => {
        #[kani::proof]
        #[kani::unwind(12)]
        #[kani::stub(std::hash::RandomState::new, crate::verif::c13_aggregate::stub_random_state_new)]
        #[kani::stub(std::fmt::format, crate::verif::env::stub_format)]
        #[kani::stub(crate::linux::maps_reader::is_mapping_a_path, crate::verif::c13_aggregate::naive_is_path)]
        fn $name() {
            use Nm::*;
            run::<$n>($names, $gate);
        }
    };
}
macro_rules! aggg {
    ($name:ident, $n:expr, $names:expr, $gaps:expr) => {
        #[kani::proof]
        #[kani::unwind(12)]
        #[kani::stub(std::hash::RandomState::new, crate::verif::c13_aggregate::stub_random_state_new)]
        #[kani::stub(std::fmt::format, crate::verif::env::stub_format)]
        #[kani::stub(crate::linux::maps_reader::is_mapping_a_path, crate::verif::c13_aggregate::naive_is_path)]
        fn $name() {
            use Nm::*;
            run_g::<$n>($names, false, Some($gaps));
        }
    };
}
aggg!(c13_2_same_adjacent, 2, [A, A], [0, 0]);
aggg!(c13_2_same_apart, 2, [A, A], [0, 1]);
aggg!(c13_2_diff_adjacent, 2, [A, B], [0, 0]);
aggg!(c13_2_file_anon_adjacent, 2, [A, Anon], [0, 0]);
aggg!(c13_3_fold_adjacent, 3, [A, Anon, A], [0, 0, 0]);
aggg!(c13_3_fold_hole_before_page, 3, [A, Anon, A], [0, 1, 0]);
aggg!(c13_3_fold_hole_after_page, 3, [A, Anon, A], [0, 0, 1]);
agg!(c13_1_file, 1, [A], false);
agg!(c13_1_vdso_gate, 1, [Vdso], true);
agg!(c13_1_anon_gate, 1, [Anon], true);
agg!(c13_1_heap, 1, [Heap], false);
agg!(c13_1_deleted, 1, [ADeleted], false);
agg!(c13_2_same, 2, [A, A], false);
agg!(c13_2_deleted_same, 2, [ADeleted, A], false);
agg!(c13_2_diff, 2, [A, B], false);
agg!(c13_2_file_anon, 2, [A, Anon], false);
agg!(c13_2_anon_anon, 2, [Anon, Anon], false);
agg!(c13_2_heap_heap, 2, [Heap, Heap], false);
agg!(c13_2_vdso_gate, 2, [Anon, Vdso], true);
agg!(c13_2_file_anon_gate, 2, [A, Anon], true);
agg!(c13_3_fold, 3, [A, Anon, A], false);
agg!(c13_3_fold_other, 3, [A, Anon, B], false);
agg!(c13_3_same, 3, [A, A, A], false);
agg!(c13_3_anon_file_anon, 3, [Anon, A, Anon], false);
agg!(c13_4_fold_then_same, 4, [A, Anon, A, A], false);
agg!(c13_2_heap_anon, 2, [Heap, Anon], false);
agg!(c13_2_anon_vdso_gate, 2, [Anon, Vdso], true);
agg!(c13_3_heap_heap_heap, 3, [Heap, Heap, Heap], false);
agg!(c13_3_anon_heap_anon, 3, [Anon, Heap, Anon], false);

/// Byte-loop reference for `is_mapping_a_path` ("contains a slash"). It replaces the real function
/// (std `contains` -> memchr) inside the aggregate harnesses: CBMC does not fold the niche-encoded
/// discriminant of `MMapPath`, so every arm of the name match is explored and the merged name pointer
/// reaches memchr_aligned with a symbolic length (17 GB+ for ONE line; 11 s with the byte loop).
/// The equivalence of the two is decided below (`c13_is_path_eq_*`).
pub fn naive_is_path(p: Option<&std::ffi::OsStr>) -> bool {
    use std::os::unix::ffi::OsStrExt;
    match p {
        None => false,
        Some(x) => {
            let b = x.as_bytes();
            let mut i = 0;
            while i < b.len() {
                if b[i] == b'/' {
                    return true;
                }
                i += 1;
            }
            false
        }
    }
}

// ---- the stub used above (`naive_is_path`) is justified here: the real `is_mapping_a_path`
// (std's memchr-based `contains`) agrees with the byte loop for every byte string of the given length ----
fn is_path_eq<const N: usize>() {
    use crate::linux::maps_reader::verif_is_mapping_a_path;
    use std::os::unix::ffi::OsStringExt;
    let b: [u8; N] = kani::any();
    let o = OsString::from_vec(b.to_vec());
    let real = verif_is_mapping_a_path(Some(o.as_os_str()));
    let naive = naive_is_path(Some(o.as_os_str()));
    assert_eq!(real, naive, "is_mapping_a_path == 'contains a slash' (byte loop)");
    kani::cover!(real, "a path");
    kani::cover!(!real, "not a path");
    assert!(!verif_is_mapping_a_path(None));
    core::mem::forget(o);
}
macro_rules! ipe {
    ($name:ident, $n:expr) => {
        #[kani::proof]
        #[kani::unwind(34)]
        fn $name() {
            is_path_eq::<$n>();
        }
    };
}
ipe!(c13_is_path_eq_len1, 1);
ipe!(c13_is_path_eq_len2, 2);
ipe!(c13_is_path_eq_len6, 6);
ipe!(c13_is_path_eq_len13, 13);
ipe!(c13_is_path_eq_len15, 15);
ipe!(c13_is_path_eq_len16, 16);
ipe!(c13_is_path_eq_len24, 24);
#[kani::proof]
#[kani::unwind(4)]
fn c13_is_path_eq_len0() {
    use crate::linux::maps_reader::verif_is_mapping_a_path;
    let o = OsString::new();
    assert!(!verif_is_mapping_a_path(Some(o.as_os_str())));
    assert!(!naive_is_path(Some(o.as_os_str())));
    assert!(!verif_is_mapping_a_path(None) && !naive_is_path(None));
    kani::cover!(true, "reached the end");
}
