//! C16 - the image builder obeys its layout laws.
//! Enc: mem_writer::{Buffer, MemoryWriter<T>, MemoryArrayWriter<T>, write_string_to_location}
//! one harness per concrete instantiation T (stated in the evidence).
//! Values of T are produced from SIZE symbolic bytes with the type's own scroll::Pread
//! (little endian); the written bytes must be exactly those bytes again (for the scalar-only
//! records this pins every field to its C-layout offset in little-endian order).
use super::util::*;
use crate::{mem_writer::*, minidump_cpu::RawContextCPU, minidump_format::*};
use scroll::{ctx::SizeWith, Pread, LE};

const PRE: usize = 5;

macro_rules! laws {
    ($name:ident, $t:ty, $size:expr, $unwind:expr) => {
        #[kani::proof]
        #[kani::unwind($unwind)]
        fn $name() {
            const SIZE: usize = $size;
            assert_eq!(<$t>::size_with(&LE), SIZE, "serialized size");
            let mut buf = Buffer::with_capacity(PRE + 6 * SIZE + 8);
            let pre: [u8; PRE] = kani::any();
            buf.write_all(&pre);
            let raw: [u8; SIZE] = kani::any();
            let v: $t = raw.pread_with(0, LE).unwrap();
            let i: usize = kani::any(); // witness: a byte of earlier content
            kani::assume(i < PRE);
            let j: usize = kani::any(); // witness: a byte of the value
            kani::assume(j < SIZE);

            // --- write a value: appended at the end, location == (old end, SIZE)
            let w = MemoryWriter::<$t>::alloc_with_val(&mut buf, v.clone()).unwrap();
            assert_eq!(w.position as usize, PRE);
            assert_eq!(w.size, SIZE);
            let loc = w.location();
            assert_eq!((loc.rva as usize, loc.data_size as usize), (PRE, SIZE));
            assert_eq!(buf.len(), PRE + SIZE);
            assert_eq!(buf[i], pre[i], "earlier bytes untouched by a write");
            assert_eq!(buf[PRE + j], raw[j], "little-endian serialization of the value");

            // --- reserve a slot: zero-filled, appended; fill later changes only that slot
            let mut s = MemoryWriter::<$t>::alloc(&mut buf).unwrap();
            assert_eq!(s.position as usize, PRE + SIZE);
            assert_eq!(buf.len(), PRE + 2 * SIZE);
            assert_eq!(buf[PRE + SIZE + j], 0, "reserved slot is zero");
            assert_eq!(buf[PRE + j], raw[j], "reserve does not alter earlier bytes");
            let raw2: [u8; SIZE] = kani::any();
            let v2: $t = raw2.pread_with(0, LE).unwrap();
            s.set_value(&mut buf, v2.clone()).unwrap();
            assert_eq!(buf.len(), PRE + 2 * SIZE, "fill-later does not grow the image");
            assert_eq!(buf[PRE + SIZE + j], raw2[j], "slot holds the value");
            assert_eq!(buf[PRE + j], raw[j], "fill-later changes only its slot (before)");
            assert_eq!(buf[i], pre[i]);

            // --- array of 2 reserved, element 1 filled: lives at base + 1*SIZE
            let mut a = MemoryArrayWriter::<$t>::alloc_array(&mut buf, 2).unwrap();
            let base = PRE + 2 * SIZE;
            assert_eq!(a.position as usize, base);
            assert_eq!(buf.len(), base + 2 * SIZE);
            let aloc = a.location();
            assert_eq!((aloc.rva as usize, aloc.data_size as usize), (base, 2 * SIZE));
            let l1 = a.location_of_index(1);
            assert_eq!((l1.rva as usize, l1.data_size as usize), (base + SIZE, SIZE));
            a.set_value_at(&mut buf, v.clone(), 1).unwrap();
            assert_eq!(buf[base + SIZE + j], raw[j], "element 1 at base + size");
            assert_eq!(buf[base + j], 0, "element 0 untouched");
            assert_eq!(buf[PRE + SIZE + j], raw2[j], "array fill leaves earlier slot alone");
            assert_eq!(buf.len(), base + 2 * SIZE);

            // --- array from an iterator of 2 values
            let it = MemoryArrayWriter::<$t>::alloc_from_iter(&mut buf, vec![v2.clone(), v.clone()]).unwrap();
            let b2 = base + 2 * SIZE;
            assert_eq!(it.position as usize, b2);
            assert_eq!(it.location().data_size as usize, 2 * SIZE);
            assert_eq!(buf.len(), b2 + 2 * SIZE);
            assert_eq!(buf[b2 + j], raw2[j], "iter element 0");
            assert_eq!(buf[b2 + SIZE + j], raw[j], "iter element 1");
            assert_eq!(buf[base + SIZE + j], raw[j], "earlier array untouched");
            assert_eq!(buf[i], pre[i]);
            kani::cover!(raw[j] != raw2[j] && raw[j] != 0, "distinct non-zero witness bytes");
        }
    };
}

laws!(c16_u8, u8, 1, 40);
laws!(c16_u16, u16, 2, 40);
laws!(c16_u32, u32, 4, 40);
laws!(c16_u64, u64, 8, 60);
laws!(c16_location, MDLocationDescriptor, 8, 60);
laws!(c16_directory, MDRawDirectory, 12, 80);
laws!(c16_memory_descriptor, MDMemoryDescriptor, 16, 110);
laws!(c16_thread_name, MDRawThreadName, 12, 80);
laws!(c16_thread, MDRawThread, 48, 300);
laws!(c16_header, MDRawHeader, 32, 200);
laws!(c16_link_map, MDRawLinkMap, 20, 140);
laws!(c16_debug, MDRawDebug, 36, 240);
laws!(c16_memory_info, MDMemoryInfo, 48, 300);
laws!(c16_handle_descriptor, MDRawHandleDescriptor, 32, 200);
laws!(c16_handle_stream, MDRawHandleDataStream, 16, 110);
laws!(c16_memory_info_list, MDMemoryInfoList, 16, 110);
laws!(c16_module, MDRawModule, 108, 660);
laws!(c16_exception_stream, MDRawExceptionStream, 168, 1020);
laws!(c16_system_info, MDRawSystemInfo, 56, 350);

/// alloc_from_array needs Copy: instantiated for u8 and MDMemoryDescriptor (the two users)
#[kani::proof]
#[kani::unwind(60)]
fn c16_from_array_memdesc() {
    let mut buf = Buffer::with_capacity(128);
    let pre: [u8; PRE] = kani::any();
    buf.write_all(&pre);
    let raw: [u8; 48] = kani::any();
    let mut arr = [MDMemoryDescriptor::default(); 3];
    for k in 0..3 {
        arr[k] = raw.pread_with(16 * k, LE).unwrap();
    }
    let n: usize = kani::any();
    kani::assume(n <= 3);
    // n is a shape: enumerate it so that lengths stay concrete
    let w = match n {
        0 => MemoryArrayWriter::<MDMemoryDescriptor>::alloc_from_array(&mut buf, &arr[..0]),
        1 => MemoryArrayWriter::<MDMemoryDescriptor>::alloc_from_array(&mut buf, &arr[..1]),
        2 => MemoryArrayWriter::<MDMemoryDescriptor>::alloc_from_array(&mut buf, &arr[..2]),
        _ => MemoryArrayWriter::<MDMemoryDescriptor>::alloc_from_array(&mut buf, &arr[..3]),
    }
    .unwrap();
    assert_eq!(w.position as usize, PRE);
    assert_eq!(w.location().data_size as usize, 16 * n);
    assert_eq!(buf.len(), PRE + 16 * n);
    let j: usize = kani::any();
    kani::assume(j < 16 * n);
    assert_eq!(buf[PRE + j], raw[j], "element j/16 at base + (j/16)*16");
    let i: usize = kani::any();
    kani::assume(i < PRE);
    assert_eq!(buf[i], pre[i]);
    kani::cover!(n == 3 && j >= 32, "third element checked");
}

#[kani::proof]
#[kani::unwind(40)]
fn c16_write_bytes() {
    let mut buf = Buffer::with_capacity(64);
    let pre: [u8; PRE] = kani::any();
    buf.write_all(&pre);
    let data: [u8; 9] = kani::any();
    let w = MemoryArrayWriter::<u8>::write_bytes(&mut buf, &data);
    assert_eq!(w.position as usize, PRE);
    let l = w.location();
    assert_eq!((l.rva as usize, l.data_size as usize), (PRE, 9));
    assert_eq!(buf.len(), PRE + 9);
    let j: usize = kani::any();
    kani::assume(j < 9);
    assert_eq!(buf[PRE + j], data[j]);
    let e = MemoryArrayWriter::<u8>::write_bytes(&mut buf, &data[..0]);
    assert_eq!(e.location().data_size, 0);
    assert_eq!(e.position as usize, PRE + 9);
    assert_eq!(buf.len(), PRE + 9);
    kani::cover!(data[j] != 0, "non-zero byte");
}

/// CPU context (1232 bytes) through the REAL derived serializer: position/size/prefix laws and
/// every field the crate fills, at the AMD64 CONTEXT offsets (WinNT.h).  This is also what
/// justifies `env::stub_context_try_into_ctx` (the layout model used by the thread-list harnesses).
#[kani::proof]
#[kani::unwind(4)]
#[kani::stub(std::vec::Vec::resize, crate::verif::env::stub_vec_resize)]
fn c16_context() {
    const SIZE: usize = 1232;
    assert_eq!(RawContextCPU::size_with(&LE), SIZE);
    let mut buf = Buffer::with_capacity(PRE + 2 * SIZE);
    let pre: [u8; PRE] = kani::any();
    buf.write_all(&pre);
    let mut ctx = RawContextCPU::default();
    let regs: [u64; 23] = kani::any();
    ctx.dr0 = regs[0];
    ctx.dr1 = regs[1];
    ctx.dr2 = regs[2];
    ctx.dr3 = regs[3];
    ctx.dr6 = regs[4];
    ctx.dr7 = regs[5];
    ctx.rax = regs[6];
    ctx.rcx = regs[7];
    ctx.rdx = regs[8];
    ctx.rbx = regs[9];
    ctx.rsp = regs[10];
    ctx.rbp = regs[11];
    ctx.rsi = regs[12];
    ctx.rdi = regs[13];
    ctx.r8 = regs[14];
    ctx.r9 = regs[15];
    ctx.r10 = regs[16];
    ctx.r11 = regs[17];
    ctx.r12 = regs[18];
    ctx.r13 = regs[19];
    ctx.r14 = regs[20];
    ctx.r15 = regs[21];
    ctx.rip = regs[22];
    let segs: [u16; 6] = kani::any();
    ctx.cs = segs[0];
    ctx.ds = segs[1];
    ctx.es = segs[2];
    ctx.fs = segs[3];
    ctx.gs = segs[4];
    ctx.ss = segs[5];
    ctx.context_flags = kani::any();
    ctx.mx_csr = kani::any();
    ctx.eflags = kani::any();
    let (cf, mx, efl) = (ctx.context_flags, ctx.mx_csr, ctx.eflags);
    let fsi: usize = kani::any();
    kani::assume(fsi < 512);
    let fsv: u8 = kani::any();
    ctx.float_save[fsi] = fsv;
    let w = MemoryWriter::<RawContextCPU>::alloc_with_val(&mut buf, ctx).unwrap();
    assert_eq!(w.position as usize, PRE);
    assert_eq!(w.location().data_size as usize, SIZE);
    assert_eq!(buf.len(), PRE + SIZE);
    assert_eq!(rd_u32(&buf, PRE + 0x30), cf);
    assert_eq!(rd_u32(&buf, PRE + 0x34), mx);
    let k: usize = kani::any();
    kani::assume(k < 6);
    assert_eq!(rd_u16(&buf, PRE + 0x38 + 2 * k), segs[k], "segment selector k at 0x38 + 2k");
    assert_eq!(rd_u32(&buf, PRE + 0x44), efl);
    let r: usize = kani::any();
    kani::assume(r < 23);
    assert_eq!(rd_u64(&buf, PRE + 0x48 + 8 * r), regs[r], "Dr0-3,6,7, Rax..R15, Rip at 0x48 + 8r");
    assert_eq!(buf[PRE + 0x100 + fsi], fsv, "FltSave at 0x100");
    let z: usize = kani::any();
    kani::assume(z < 0x30 || (z >= 0x300 && z < SIZE));
    assert_eq!(buf[PRE + z], 0, "home slots and vector/debug-control area stay zero");
    let i: usize = kani::any();
    kani::assume(i < PRE);
    assert_eq!(buf[i], pre[i]);
    kani::cover!(regs[22] != 0 && regs[10] != regs[22] && fsv != 0, "non-trivial registers");
}

/// Strings: u32 byte length + UTF-16LE units that decode back to the text.
/// A symbolic `char` makes the lengths of the UTF-8 and UTF-16 forms symbolic (measured: 16 GB
/// after 7 min), so the middle character is one of the boundary code points of every encoding
/// class, chosen per harness instance; the two neighbours are fixed ASCII letters.
fn string_law(c: char) {
    let mut s = String::with_capacity(8);
    s.push('a');
    s.push(c);
    s.push('z');
    let mut buf = Buffer::with_capacity(64);
    let pre: [u8; PRE] = kani::any();
    buf.write_all(&pre);
    let loc = write_string_to_location(&mut buf, &s).unwrap();
    let units = if (c as u32) >= 0x10000 { 4 } else { 3 };
    assert_eq!(loc.rva as usize, PRE);
    assert_eq!(loc.data_size as usize, 4 + 2 * units, "location covers header + units");
    assert_eq!(buf.len(), PRE + 4 + 2 * units);
    assert_eq!(rd_u32(&buf, PRE) as usize, 2 * units, "header is the byte length");
    assert_eq!(rd_u16(&buf, PRE + 4), 'a' as u16);
    let u0 = rd_u16(&buf, PRE + 6) as u32;
    let decoded = if units == 3 {
        assert_eq!(rd_u16(&buf, PRE + 8), 'z' as u16);
        assert!(!(0xd800..0xe000).contains(&u0), "BMP char is not a surrogate");
        u0
    } else {
        let u1 = rd_u16(&buf, PRE + 8) as u32;
        assert_eq!(rd_u16(&buf, PRE + 10), 'z' as u16);
        assert!((0xd800..0xdc00).contains(&u0) && (0xdc00..0xe000).contains(&u1), "surrogate pair");
        0x10000 + ((u0 - 0xd800) << 10) + (u1 - 0xdc00)
    };
    assert_eq!(decoded, c as u32, "units decode back to the original char");
    let i: usize = kani::any();
    kani::assume(i < PRE);
    assert_eq!(buf[i], pre[i]);
    kani::cover!(pre[i] != 0, "non-zero earlier byte");
}
macro_rules! string_shape {
    ($name:ident, $c:expr) => {
        #[kani::proof]
        #[kani::unwind(12)]
        fn $name() {
            string_law($c);
        }
    };
}
string_shape!(c16_string_u0000, '\u{0}');
string_shape!(c16_string_u007f, '\u{7f}');
string_shape!(c16_string_u0080, '\u{80}');
string_shape!(c16_string_u07ff, '\u{7ff}');
string_shape!(c16_string_u0800, '\u{800}');
string_shape!(c16_string_ud7ff, '\u{d7ff}');
string_shape!(c16_string_ue000, '\u{e000}');
string_shape!(c16_string_uffff, '\u{ffff}');
string_shape!(c16_string_u10000, '\u{10000}');
string_shape!(c16_string_u10ffff, '\u{10ffff}');

#[kani::proof]
#[kani::unwind(12)]
fn c16_string_empty() {
    let mut buf = Buffer::with_capacity(16);
    let pre: [u8; PRE] = kani::any();
    buf.write_all(&pre);
    let loc = write_string_to_location(&mut buf, "").unwrap();
    assert_eq!((loc.rva as usize, loc.data_size), (PRE, 4));
    assert_eq!(buf.len(), PRE + 4);
    assert_eq!(rd_u32(&buf, PRE), 0);
    kani::cover!(pre[0] != 0, "non-zero prefix");
}

