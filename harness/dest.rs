//! An in-memory Write + Seek destination with std::io::Cursor semantics over a fixed array,
//! plus the fault/crash instrumentation used by C09, C10, C03 and the dump() skeleton.
use std::io::{Error, ErrorKind, Result, Seek, SeekFrom, Write};

pub struct ArrDest<const N: usize> {
    pub data: [u8; N],
    pub pos: u64,
    /// number of write/seek calls made so far
    pub ops: usize,
    /// calls with index >= crash_at are silently dropped (the writer "died" before them)
    pub crash_at: usize,
    /// the call with this index returns an I/O error (and does nothing)
    pub fail_at: usize,
    /// one past the highest byte index ever written
    pub high_water: usize,
    pub writes: usize,
    pub seeks: usize,
    /// copy with one memcpy (needs a concrete cursor)
    pub memcpy: bool,
}

impl<const N: usize> ArrDest<N> {
    pub fn new(data: [u8; N], pos: u64) -> Self {
        Self { data, pos, ops: 0, crash_at: usize::MAX, fail_at: usize::MAX, high_water: 0, writes: 0, seeks: 0, memcpy: false }
    }
}

impl<const N: usize> Write for ArrDest<N> {
    fn write(&mut self, buf: &[u8]) -> Result<usize> {
        let op = self.ops;
        self.ops += 1;
        if op == self.fail_at {
            return Err(Error::from(ErrorKind::Other));
        }
        if op >= self.crash_at {
            return Ok(buf.len());
        }
        self.writes += 1;
        let start = self.pos as usize;
        // capacity is part of the harness bounds, not of the property
        kani::assume(start + buf.len() <= N);
        if self.memcpy {
            // one memcpy instead of a byte loop (the loop costs ~1 s of symbolic execution per byte
            // on a 640-byte destination); only when the cursor is concrete - a memcpy at a
            // symbolic offset costs gigabytes
            self.data[start..start + buf.len()].copy_from_slice(buf);
        } else {
            let mut i = 0;
            while i < buf.len() {
                self.data[start + i] = buf[i];
                i += 1;
            }
        }
        self.pos += buf.len() as u64;
        if start + buf.len() > self.high_water {
            self.high_water = start + buf.len();
        }
        Ok(buf.len())
    }
    fn flush(&mut self) -> Result<()> {
        Ok(())
    }
    /// One `write` call per `write_all` (this destination never writes short), without the
    /// default implementation's retry loop: that loop decodes the io::Error bit-packed
    /// representation to test for `Interrupted`, which CBMC cannot constant-fold (measured:
    /// the retry loop is then unrolled to its bound around every failed write, > 600 s).
    fn write_all(&mut self, buf: &[u8]) -> Result<()> {
        self.write(buf).map(|_| ())
    }
}

impl<const N: usize> Seek for ArrDest<N> {
    fn seek(&mut self, to: SeekFrom) -> Result<u64> {
        match to {
            // stream_position(): a query, not an operation that can be lost
            SeekFrom::Current(0) => return Ok(self.pos),
            _ => {}
        }
        let op = self.ops;
        self.ops += 1;
        if op == self.fail_at {
            return Err(Error::from(ErrorKind::Other));
        }
        if op >= self.crash_at {
            return Ok(self.pos);
        }
        self.seeks += 1;
        match to {
            SeekFrom::Start(p) => self.pos = p,
            SeekFrom::Current(d) => self.pos = (self.pos as i64 + d) as u64,
            SeekFrom::End(d) => self.pos = (N as i64 + d) as u64,
        }
        Ok(self.pos)
    }
}
