//! C17 - all remote-memory read strategies return the target's bytes.
//! Enc: MemReader::{ptrace, vmem, read, read_to_vec}, PtraceDumper::copy_from_process.
//! Target memory model: a window of WIN symbolic bytes at symbolic address BASE is the only
//! readable memory ([BASE, BASE+WIN)); everything else is unmapped.
use super::util::*;
use crate::linux::mem_reader::MemReader;
use nix::errno::Errno;

pub const WIN: usize = 40;
pub static mut BASE: usize = 0;
pub static mut MEM: [u8; WIN] = [0; WIN];
pub static mut PEEKS: usize = 0;
pub static mut VMEM_CALLS: usize = 0;
pub static mut VMEM_WORKS: bool = true;
pub static mut OPEN_CALLS: usize = 0;

fn setup() {
    let base: usize = kani::any();
    kani::assume(base >= 4096 && base <= usize::MAX - 8192);
    unsafe {
        BASE = base;
        MEM = kani::any();
        PEEKS = 0;
        VMEM_CALLS = 0;
        OPEN_CALLS = 0;
    }
}

/// ptrace(2) PTRACE_PEEKDATA: a word at `addr`, EIO/EFAULT unless the whole word is mapped.
pub fn stub_ptrace_read(_pid: nix::unistd::Pid, addr: nix::sys::ptrace::AddressType) -> nix::Result<libc::c_long> {
    let a = addr as usize;
    unsafe {
        PEEKS += 1;
        if a >= BASE && a - BASE <= WIN - 8 {
            let o = a - BASE;
            Ok(i64::from_ne_bytes([MEM[o], MEM[o + 1], MEM[o + 2], MEM[o + 3], MEM[o + 4], MEM[o + 5], MEM[o + 6], MEM[o + 7]]))
        } else {
            Err(Errno::EIO)
        }
    }
}

/// process_vm_readv(2) with one local and one remote iovec: copies the readable prefix,
/// EFAULT when not even the first byte is readable (partial transfers are allowed).
pub fn stub_process_vm_readv(
    _pid: nix::unistd::Pid,
    local: &mut [std::io::IoSliceMut<'_>],
    remote: &[nix::sys::uio::RemoteIoVec],
) -> nix::Result<usize> {
    unsafe {
        VMEM_CALLS += 1;
        if !VMEM_WORKS {
            return Err(Errno::ENOSYS);
        }
        let a = remote[0].base;
        let len = remote[0].len;
        assert_eq!(local[0].len(), len, "local and remote iovec have the same length");
        if a < BASE || a - BASE >= WIN {
            return Err(Errno::EFAULT);
        }
        let o = a - BASE;
        let n = if len < WIN - o { len } else { WIN - o };
        let mut i = 0;
        while i < n {
            local[0][i] = MEM[o + i];
            i += 1;
        }
        Ok(n)
    }
}

pub fn stub_file_open_enoent<P: AsRef<std::path::Path>>(_p: P) -> std::io::Result<std::fs::File> {
    unsafe {
        OPEN_CALLS += 1;
    }
    Err(std::io::Error::from_raw_os_error(libc::EACCES))
}

/// oracle shared by all strategies; `got` = bytes the strategy says it read into dst
fn judge<const LEN: usize>(src: usize, res_ok: Option<usize>, dst: &[u8; LEN]) {
    let (base, mem) = unsafe { (BASE, MEM) };
    let inside = src >= base && src - base <= WIN - LEN;
    if inside {
        assert_eq!(res_ok, Some(LEN), "an entirely readable range is returned completely");
    }
    if let Some(n) = res_ok {
        assert!(n <= LEN);
        if n > 0 {
            assert!(src >= base && src - base + n <= WIN, "bytes reported as read lie in readable memory");
            let i: usize = kani::any();
            kani::assume(i < n);
            assert_eq!(dst[i], mem[src - base + i], "returned byte == target memory (never fabricated)");
        }
        if !inside {
            assert!(n < LEN, "a range running into unreadable memory yields a strict prefix (or an error)");
        }
    }
    kani::cover!(inside && src - base == WIN - LEN, "range ends exactly at the end of readable memory");
    kani::cover!(inside && (src & 7) != 0, "unaligned start");
    kani::cover!(!inside && src >= base && src - base < WIN, "range runs out of readable memory");
    kani::cover!(res_ok.is_none() || LEN == 0, "a failing read exists");
}

fn ptrace_strategy<const LEN: usize>() {
    setup();
    let src: usize = kani::any();
    kani::assume(src <= usize::MAX - 64);
    let mut dst = [0u8; LEN];
    let r = MemReader::verif_ptrace(1, src, &mut dst);
    let ok = match r {
        Ok(n) => Some(n),
        Err(_) => None,
    };
    judge::<LEN>(src, ok, &dst);
}

fn vmem_strategy<const LEN: usize>() {
    setup();
    let src: usize = kani::any();
    kani::assume(src <= usize::MAX - 64);
    let mut dst = [0u8; LEN];
    let r = MemReader::verif_vmem(1, src, &mut dst);
    let ok = match r {
        Ok(n) => Some(n),
        Err(_) => None,
    };
    judge::<LEN>(src, ok, &dst);
}

/// read_to_vec through an explicit strategy: the Vec is exactly the bytes read (short-read aware).
/// style: 1 = vectored read, 3 = ptrace.
fn to_vec<const LEN: usize>(style: u8) {
    setup();
    let src: usize = kani::any();
    kani::assume(src <= usize::MAX - 64);
    let mut rd = if style == 1 { MemReader::for_virtual_mem(1) } else { MemReader::for_ptrace(1) };
    let r = rd.read_to_vec(src, std::num::NonZeroUsize::new(LEN).unwrap());
    let mut dst = [0u8; LEN];
    let ok = match &r {
        Ok(v) => {
            assert!(v.len() <= LEN, "vector never longer than requested");
            let mut i = 0;
            while i < LEN {
                if i < v.len() {
                    dst[i] = v[i];
                }
                i += 1;
            }
            Some(v.len())
        }
        Err(_) => None,
    };
    judge::<LEN>(src, ok, &dst);
    assert_eq!(rd.verif_style(), style, "an explicitly chosen strategy is kept");
    core::mem::forget(r);
    core::mem::forget(rd);
}

/// Probing (`MemReader::new`): the vectored read is tried first and kept when it works.
fn probe<const LEN: usize>() {
    setup();
    let src: usize = kani::any();
    let base = unsafe { BASE };
    // first access succeeds => no fallback is attempted (the fallback opens /proc/<pid>/mem, which
    // is outside what can be encoded: see OUTSIDE)
    kani::assume(src >= base && src - base < WIN);
    let r = crate::linux::ptrace_dumper::PtraceDumper::copy_from_process(1, src, LEN);
    let mut dst = [0u8; LEN];
    let ok = match &r {
        Ok(v) => {
            let mut i = 0;
            while i < LEN {
                if i < v.len() {
                    dst[i] = v[i];
                }
                i += 1;
            }
            Some(v.len())
        }
        Err(_) => None,
    };
    assert!(ok.is_some(), "the readable prefix is returned");
    judge::<LEN>(src, ok, &dst);
    unsafe {
        assert_eq!(VMEM_CALLS, 1, "vectored read is probed first, once");
        assert_eq!(PEEKS, 0, "no fallback when the vectored read works");
    }
    core::mem::forget(r);
}

macro_rules! strat {
    ($name:ident, $f:ident, $len:expr) => {
        #[kani::proof]
        #[kani::unwind(12)]
        #[kani::stub(nix::sys::ptrace::read, crate::verif::c17_mem_reader::stub_ptrace_read)]
        #[kani::stub(nix::sys::uio::process_vm_readv, crate::verif::c17_mem_reader::stub_process_vm_readv)]
        #[kani::stub(std::fmt::format, crate::verif::env::stub_format)]
        fn $name() {
            $f::<$len>();
        }
    };
}
strat!(c17_ptrace_len1, ptrace_strategy, 1);
strat!(c17_ptrace_len7, ptrace_strategy, 7);
strat!(c17_ptrace_len8, ptrace_strategy, 8);
strat!(c17_ptrace_len9, ptrace_strategy, 9);
strat!(c17_ptrace_len12, ptrace_strategy, 12);
strat!(c17_ptrace_len16, ptrace_strategy, 16);
strat!(c17_ptrace_len23, ptrace_strategy, 23);
strat!(c17_vmem_len1, vmem_strategy, 1);
strat!(c17_vmem_len9, vmem_strategy, 9);
strat!(c17_vmem_len24, vmem_strategy, 24);

macro_rules! tv {
    ($name:ident, $len:expr, $style:expr) => {
        #[kani::proof]
        #[kani::unwind(30)]
        #[kani::stub(nix::sys::ptrace::read, crate::verif::c17_mem_reader::stub_ptrace_read)]
        #[kani::stub(nix::sys::uio::process_vm_readv, crate::verif::c17_mem_reader::stub_process_vm_readv)]
        #[kani::stub(std::fmt::format, crate::verif::env::stub_format)]
        fn $name() {
            to_vec::<$len>($style);
        }
    };
}
tv!(c17_vec_vmem_len12, 12, 1);
tv!(c17_vec_ptrace_len12, 12, 3);
tv!(c17_vec_ptrace_len5, 5, 3);

#[kani::proof]
#[kani::unwind(30)]
#[kani::stub(nix::sys::ptrace::read, crate::verif::c17_mem_reader::stub_ptrace_read)]
#[kani::stub(nix::sys::uio::process_vm_readv, crate::verif::c17_mem_reader::stub_process_vm_readv)]
#[kani::stub(std::fmt::format, crate::verif::env::stub_format)]
fn c17_probe_vmem_len12() {
    probe::<12>();
}

/// copy_from_process(len == 0) is an error, not an empty success
#[kani::proof]
#[kani::unwind(4)]
#[kani::stub(std::fmt::format, crate::verif::env::stub_format)]
fn c17_copy_len0() {
    let r = crate::linux::ptrace_dumper::PtraceDumper::copy_from_process(kani::any(), kani::any(), 0);
    assert!(r.is_err());
    kani::cover!(r.is_err(), "reached");
    core::mem::forget(r);
}

/// Tool self-test: Kani's model of `try_reserve_exact` followed by `resize` (a fallible-allocation
/// rewrite of read_to_vec must not trip spurious pointer checks in this machinery).
#[kani::proof]
#[kani::unwind(30)]
fn c17_selftest_try_reserve() {
    let mut v: Vec<u8> = Vec::new();
    let r = v.try_reserve_exact(12);
    assert!(r.is_ok());
    v.resize(12, 0);
    let i: usize = kani::any();
    kani::assume(i < 12);
    assert_eq!(v[i], 0);
    kani::cover!(v.len() == 12, "reached");
}

fn selftest_nrvo(n: usize) -> Result<Vec<u8>, crate::errors::CopyFromProcessError> {
    let mut o = Vec::new();
    o.try_reserve_exact(n).map_err(|_e| crate::errors::CopyFromProcessError { child: 1, src: 0, offset: 0, length: n, source: Errno::ENOMEM })?;
    o.resize(n, 0);
    Ok(o)
}
#[kani::proof]
#[kani::unwind(30)]
#[kani::stub(nix::sys::ptrace::read, crate::verif::c17_mem_reader::stub_ptrace_read)]
#[kani::stub(std::fmt::format, crate::verif::env::stub_format)]
fn c17_selftest_try_reserve_in_result() {
    let r = selftest_nrvo(12);
    assert!(r.is_ok());
    kani::cover!(r.is_ok(), "reached");
    core::mem::forget(r);
}
