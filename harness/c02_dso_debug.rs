//! C02 (totality) / C18 (linker debug stream) - dso_debug::write_dso_debug_stream.
//! Target memory is a script: call k of copy_from_process returns DSO_LEN[k] bytes of
//! DSO_DATA[k] (symbolic unless the harness pins them), or fails from call DSO_FAIL_AT on.
//! The walk is cut by phase with DSO_FAIL_AT (the whole function with fully arbitrary memory
//! did not finish in the design round); see DESIGN.md C02.
use super::util::*;
use crate::{
    errors::{CopyFromProcessError, DumperError},
    linux::{
        auxv::{AuxvDumpInfo, DirectAuxvDumpInfo},
    },
    mem_writer::Buffer,
    minidump_format::*,
    Pid,
};

pub const CALLS: usize = 10;
pub const CHUNK: usize = 256;
pub static mut DSO_N: usize = 0;
pub static mut DSO_SRC: [usize; CALLS] = [0; CALLS];
pub static mut DSO_REQ: [usize; CALLS] = [0; CALLS];
pub static mut DSO_DATA: [[u8; CHUNK]; CALLS] = [[0; CHUNK]; CALLS];
/// bytes served by call k (usize::MAX: as many as requested)
pub static mut DSO_LEN: [usize; CALLS] = [usize::MAX; CALLS];
pub static mut DSO_FAIL_AT: usize = usize::MAX;

pub fn stub_copy_scripted(pid: Pid, src: usize, length: usize) -> Result<Vec<u8>, DumperError> {
    unsafe {
        let n = DSO_N;
        assert!(n < CALLS, "script too short");
        DSO_SRC[n] = src;
        DSO_REQ[n] = length;
        DSO_N = n + 1;
        if n >= DSO_FAIL_AT {
            // End of the phase under test.  The path is cut with assume(false) rather than by
            // returning Err: CBMC does not fold the (niche-encoded) Err of Result<Vec<u8>, _> at the
            // caller's `?`, so a failing read would not stop symbolic execution of the rest of the
            // function (measured: the always-failing variant still walked the whole function).
            kani::cover!(n == DSO_FAIL_AT, "the phase under test ran to its end (cut reached)");
            kani::assume(false);
        }
        if length == 0 || n >= DSO_FAIL_AT {
            return Err(DumperError::CopyFromProcessError(CopyFromProcessError {
                child: pid,
                src,
                offset: 0,
                length,
                source: nix::errno::Errno::EFAULT,
            }));
        }
        // request lengths are concrete in every instance
        assert!(length <= CHUNK);
        let k = if DSO_LEN[n] < length { DSO_LEN[n] } else { length };
        Ok(DSO_DATA[n][..k].to_vec())
    }
}

fn reset(fail_at: usize) {
    unsafe {
        DSO_N = 0;
        DSO_FAIL_AT = fail_at;
        DSO_LEN = [usize::MAX; CALLS];
    }
}
fn sym_call(k: usize) {
    unsafe {
        DSO_DATA[k] = kani::any();
    }
}
fn put_u32(k: usize, off: usize, v: u32) {
    unsafe { DSO_DATA[k][off..off + 4].copy_from_slice(&v.to_le_bytes()) }
}
fn put_u64(k: usize, off: usize, v: u64) {
    unsafe { DSO_DATA[k][off..off + 8].copy_from_slice(&v.to_le_bytes()) }
}
fn auxv(phnum: u64, phdr: u64) -> AuxvDumpInfo {
    DirectAuxvDumpInfo { program_header_count: phnum, program_header_address: phdr, linux_gate_address: 0, entry_address: 0 }.into()
}
fn run(buf: &mut Buffer, a: &AuxvDumpInfo) -> Option<MDRawDirectory> {
    match crate::linux::verif_write_dso_debug_stream(buf, 77, a) {
        Ok(d) => Some(d),
        Err(e) => {
            core::mem::forget(e);
            None
        }
    }
}
const PT_LOAD: u32 = 1;
const PT_DYNAMIC: u32 = 2;
const DT_NULL: u64 = 0;
const DT_DEBUG: u64 = 21;

macro_rules! dso {
    ($name:ident, $unwind:expr, $body:block) => {
        #[kani::proof]
        #[kani::unwind($unwind)]
        #[kani::stub(crate::linux::ptrace_dumper::PtraceDumper::copy_from_process, crate::verif::c02_dso_debug::stub_copy_scripted)]
        #[kani::stub(std::fmt::format, crate::verif::env::stub_format)]
        #[kani::stub(std::vec::Vec::resize, crate::verif::env::stub_vec_resize)]
        fn $name() $body
    };
}

// ---- phase 0: AT_PHNUM / AT_PHDR are arbitrary; the first read fails
dso!(c02_dso_phnum_arbitrary, 4, {
    reset(0);
    let a = auxv(kani::any(), kani::any());
    let mut buf = Buffer::with_capacity(16);
    let r = run(&mut buf, &a);
    // only paths on which no read was attempted come back
    assert!(r.is_none());
    kani::cover!(true, "returned before the cut");
});

// ---- phase 1: 2 program headers with arbitrary content, AT_PHDR arbitrary; stops at the 2nd read
dso!(c02_dso_phdr_arbitrary, 6, {
    reset(1);
    sym_call(0);
    let a = auxv(2, kani::any());
    let mut buf = Buffer::with_capacity(16);
    let r = run(&mut buf, &a);
    assert!(r.is_none());
    kani::cover!(true, "returned before the cut");
});
// short read of the program headers (half of what was asked for)
dso!(c02_dso_phdr_short_read, 6, {
    reset(1);
    sym_call(0);
    unsafe { DSO_LEN[0] = 56 };
    let a = auxv(2, kani::any());
    let mut buf = Buffer::with_capacity(16);
    let r = run(&mut buf, &a);
    assert!(r.is_none(), "a short read cannot yield a stream");
    kani::cover!(true, "returned before the cut");
});

/// concrete program headers: PT_LOAD(offset 0, vaddr `load_vaddr`) + PT_DYNAMIC(vaddr `dyn_vaddr`)
fn pin_phdrs(load_vaddr: u64, dyn_vaddr: u64) {
    unsafe { DSO_DATA[0] = [0; CHUNK] };
    put_u32(0, 0, PT_LOAD);
    put_u64(0, 8, 0);
    put_u64(0, 16, load_vaddr);
    put_u32(0, 56, PT_DYNAMIC);
    put_u64(0, 56 + 16, dyn_vaddr);
}

// ---- phase 2: dynamic scan, arbitrary entries; PT_DYNAMIC vaddr arbitrary
dso!(c02_dso_dynamic_arbitrary, 8, {
    reset(4);
    pin_phdrs(0, kani::any());
    sym_call(1);
    sym_call(2);
    sym_call(3);
    let a = auxv(2, 0x5555_0000_0040);
    let mut buf = Buffer::with_capacity(16);
    let r = run(&mut buf, &a);
    assert!(r.is_none());
    kani::cover!(true, "returned before the cut");
});
dso!(c02_dso_dynamic_short_read, 8, {
    reset(2);
    pin_phdrs(0, 0x3000);
    sym_call(1);
    unsafe { DSO_LEN[1] = 8 };
    let a = auxv(2, 0x5555_0000_0040);
    let mut buf = Buffer::with_capacity(16);
    let r = run(&mut buf, &a);
    assert!(r.is_none());
    kani::cover!(true, "returned before the cut");
});

fn pin_dynamic(r_debug: u64) {
    unsafe {
        DSO_DATA[1] = [0; CHUNK];
        DSO_DATA[2] = [0; CHUNK];
    }
    put_u64(1, 0, DT_DEBUG);
    put_u64(1, 8, r_debug);
    put_u64(2, 0, DT_NULL);
}

// ---- phase 3: r_debug and link_map chain with arbitrary content (up to 3 hops), then a failing read
dso!(c02_dso_linkmap_arbitrary, 8, {
    reset(7);
    pin_phdrs(0, 0x3000);
    pin_dynamic(kani::any());
    sym_call(3); // r_debug
    sym_call(4); // link_map 1
    sym_call(5); // link_map 2
    sym_call(6); // link_map 3
    let a = auxv(2, 0x5555_0000_0040);
    let mut buf = Buffer::with_capacity(256);
    let r = run(&mut buf, &a);
    kani::cover!(true, "returned before the cut");
    core::mem::forget(r);
});
dso!(c02_dso_rdebug_short_read, 8, {
    reset(5);
    pin_phdrs(0, 0x3000);
    pin_dynamic(0x7000);
    sym_call(3);
    unsafe { DSO_LEN[3] = 24 };
    let a = auxv(2, 0x5555_0000_0040);
    let mut buf = Buffer::with_capacity(256);
    let r = run(&mut buf, &a);
    kani::cover!(true, "returned before the cut");
    core::mem::forget(r);
});
dso!(c02_dso_linkmap_short_read, 8, {
    reset(6);
    pin_phdrs(0, 0x3000);
    pin_dynamic(0x7000);
    unsafe { DSO_DATA[3] = [0; CHUNK] };
    put_u32(3, 0, 1);
    put_u64(3, 8, 0x8000);
    sym_call(4);
    unsafe { DSO_LEN[4] = 16 };
    let a = auxv(2, 0x5555_0000_0040);
    let mut buf = Buffer::with_capacity(256);
    let r = run(&mut buf, &a);
    kani::cover!(true, "returned before the cut");
    core::mem::forget(r);
});

/// A link_map list that forms a cycle in target memory and whose reads never fail: the walk must
/// still end (bounded iteration).  Every read of a link_map returns the same node pointing to itself.
pub fn stub_copy_cyclic(pid: Pid, src: usize, length: usize) -> Result<Vec<u8>, DumperError> {
    unsafe {
        let n = DSO_N;
        DSO_N = n + 1;
        if n < 4 {
            DSO_SRC[n] = src;
            DSO_REQ[n] = length;
            return Ok(DSO_DATA[n][..length].to_vec());
        }
        // link_map { l_addr, l_name = 0, l_ld, l_next = 0x8000, l_prev }
        let mut node = [0u8; 40];
        node[24..32].copy_from_slice(&0x8000u64.to_le_bytes());
        if length == 40 {
            Ok(node.to_vec())
        } else {
            Err(DumperError::CopyFromProcessError(CopyFromProcessError { child: pid, src, offset: 0, length, source: nix::errno::Errno::EFAULT }))
        }
    }
}
#[kani::proof]
#[kani::unwind(8)]
#[kani::stub(crate::linux::ptrace_dumper::PtraceDumper::copy_from_process, crate::verif::c02_dso_debug::stub_copy_cyclic)]
#[kani::stub(std::fmt::format, crate::verif::env::stub_format)]
#[kani::stub(std::vec::Vec::resize, crate::verif::env::stub_vec_resize)]
fn c02_dso_linkmap_cycle_terminates() {
    reset(usize::MAX);
    pin_phdrs(0, 0x3000);
    pin_dynamic(0x7000);
    unsafe { DSO_DATA[3] = [0; CHUNK] };
    put_u32(3, 0, 1);
    put_u64(3, 8, 0x8000);
    let a = auxv(2, 0x5555_0000_0040);
    let mut buf = Buffer::with_capacity(64);
    let r = run(&mut buf, &a);
    kani::cover!(true, "the walk returned");
    core::mem::forget(r);
}

// ---- phase 4 (C18): a complete two-object chain; the stream mirrors what the target contained
dso!(c18_dso_two_objects, 12, {
    reset(usize::MAX);
    let load_vaddr: u64 = 0;
    let dyn_vaddr: u64 = 0x3000;
    let phdr: u64 = 0x5555_0000_0040;
    pin_phdrs(load_vaddr, dyn_vaddr);
    let r_debug_addr: u64 = kani::any();
    pin_dynamic(r_debug_addr);
    // r_debug
    let (r_version, r_map, r_brk, r_ldbase): (u32, u64, u64, u64) = (kani::any(), kani::any(), kani::any(), kani::any());
    kani::assume(r_map != 0);
    unsafe { DSO_DATA[3] = [0; CHUNK] };
    put_u32(3, 0, r_version);
    put_u64(3, 8, r_map);
    put_u64(3, 16, r_brk);
    put_u64(3, 32, r_ldbase);
    // two link_maps
    let (a0, n0, l0, next0): (u64, u64, u64, u64) = (kani::any(), kani::any(), kani::any(), kani::any());
    let (a1, l1): (u64, u64) = (kani::any(), kani::any());
    kani::assume(next0 != 0 && n0 != 0);
    unsafe {
        DSO_DATA[4] = [0; CHUNK];
        DSO_DATA[5] = [0; CHUNK];
    }
    put_u64(4, 0, a0);
    put_u64(4, 8, n0);
    put_u64(4, 16, l0);
    put_u64(4, 24, next0);
    put_u64(5, 0, a1);
    put_u64(5, 8, 0); // no name
    put_u64(5, 16, l1);
    put_u64(5, 24, 0);
    // name of object 0: "ab\0..."
    unsafe { DSO_DATA[6] = [0; CHUNK] };
    unsafe {
        DSO_DATA[6][0] = b'a';
        DSO_DATA[6][1] = b'b';
    }
    // final copy of the dynamic section (32 bytes)
    sym_call(7);
    let a = auxv(2, phdr);
    let mut buf = Buffer::with_capacity(256);
    let pre: [u8; 3] = kani::any();
    buf.write_all(&pre);
    let r = run(&mut buf, &a);
    let d = match r {
        Some(d) => d,
        None => panic!("a well-formed chain yields a stream"),
    };
    let base = phdr & !0xfff;
    let dyn_addr = dyn_vaddr + base;
    unsafe {
        assert_eq!(DSO_N, 8);
        assert_eq!((DSO_SRC[0], DSO_REQ[0]), (phdr as usize, 112), "program headers read from AT_PHDR");
        assert_eq!((DSO_SRC[1], DSO_REQ[1]), (dyn_addr as usize, 16), "dynamic section found through PT_DYNAMIC");
        assert_eq!(DSO_SRC[2], dyn_addr as usize + 16);
        assert_eq!((DSO_SRC[3], DSO_REQ[3]), (r_debug_addr as usize, 40), "r_debug read from DT_DEBUG");
        assert_eq!((DSO_SRC[4], DSO_REQ[4]), (r_map as usize, 40), "first link_map is r_map");
        assert_eq!(DSO_SRC[5], next0 as usize, "second link_map is l_next");
        assert_eq!((DSO_SRC[6], DSO_REQ[6]), (n0 as usize, 256), "name read from l_name");
        assert_eq!((DSO_SRC[7], DSO_REQ[7]), (dyn_addr as usize, 32), "dynamic section copied: two entries");
    }
    // image: [pre 3][link_map array 2 x 20][name0: 4 + 2*2][name1: 4][MDRawDebug 36][dynamic 32]
    assert_eq!(d.stream_type, MDStreamType::LinuxDsoDebug as u32);
    let lm = 3;
    let name0 = lm + 40;
    let name1 = name0 + 8;
    let dbg = name1 + 4;
    assert_eq!(d.location.rva as usize, dbg);
    assert_eq!(d.location.data_size as usize, 36 + 32, "stream covers the debug record and the dynamic section");
    assert_eq!(buf.len(), dbg + 36 + 32);
    assert_eq!(rd_u64(&buf, lm), a0, "object 0: load address");
    assert_eq!(rd_u32(&buf, lm + 8) as usize, name0, "object 0: name rva");
    assert_eq!(rd_u64(&buf, lm + 12), l0, "object 0: dynamic section address");
    assert_eq!(rd_u64(&buf, lm + 20), a1, "object 1: load address");
    assert_eq!(rd_u32(&buf, lm + 28) as usize, name1);
    assert_eq!(rd_u64(&buf, lm + 32), l1);
    assert_eq!(rd_u32(&buf, name0), 4, "name 'ab' is 2 UTF-16 units");
    assert_eq!(rd_u16(&buf, name0 + 4), b'a' as u16);
    assert_eq!(rd_u16(&buf, name0 + 6), b'b' as u16);
    assert_eq!(rd_u32(&buf, name1), 0, "unnamed object: empty string");
    assert_eq!(rd_u32(&buf, dbg), r_version, "r_version");
    assert_eq!(rd_u32(&buf, dbg + 4) as usize, lm, "map rva");
    assert_eq!(rd_u32(&buf, dbg + 8), 2, "dso_count");
    assert_eq!(rd_u64(&buf, dbg + 12), r_brk);
    assert_eq!(rd_u64(&buf, dbg + 20), r_ldbase);
    assert_eq!(rd_u64(&buf, dbg + 28), dyn_addr, "address of the dynamic section");
    let i: usize = kani::any();
    kani::assume(i < 32);
    assert_eq!(buf[dbg + 36 + i], unsafe { DSO_DATA[7][i] }, "dynamic section bytes copied verbatim");
    kani::cover!(a0 != a1, "distinct objects");
});

