//! Kani harnesses for minidump-writer (copied into a scratch overlay of /repo
//! as `src/verif/`; never part of /repo).  See /verif/DESIGN.md.
#![allow(dead_code, unused_imports, clippy::all)]

pub mod util;
pub mod env;
pub mod dest;
pub mod c02_dso_debug;
pub mod c03_suspend;
pub mod c03_stop;
pub mod c04_registers;
pub mod c06_stacks;
pub mod c07_memory_list;
pub mod c08_modules;
pub mod c09_dir_section;
pub mod c11_init;
pub mod c12_sanitize;
pub mod c13_aggregate;
pub mod c14_module_reader;
pub mod c18_streams;
pub mod c19_dump;
pub mod c20_skip_stacks;
pub mod c15_thread_names;
pub mod c16_mem_writer;
pub mod c17_mem_reader;
