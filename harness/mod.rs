//! Kani harnesses for minidump-writer (copied into a scratch overlay of /repo
//! as `src/verif/`; never part of /repo).  See /verif/DESIGN.md.
#![allow(dead_code, unused_imports, clippy::all)]

pub mod util;
pub mod env;
pub mod dest;
pub mod c09_dir_section;
pub mod c12_sanitize;
pub mod c20_skip_stacks;
pub mod c15_thread_names;
pub mod c16_mem_writer;
pub mod c17_mem_reader;
