//! Kani harnesses for minidump-writer (copied into a scratch overlay of /repo
//! as `src/verif/`; never part of /repo).  See /verif/DESIGN.md.
#![allow(dead_code, unused_imports, clippy::all)]

pub mod util;
pub mod c15_thread_names;
