//! C04 (register accuracy) / C05 (crash context attribution) - register files -> minidump CPU context.
//! Enc: ThreadInfoX86::fill_cpu_context, CrashContext::{fill_cpu_context,get_instruction_pointer,get_stack_pointer},
//! thread_info::copy_u32_registers.  Offsets below are written from the AMD64 CONTEXT / FXSAVE layouts
//! (WinNT.h, Intel SDM vol.1 10.5.1), not taken from the crate.
use super::util::*;
use crate::{linux::crash_context::CrashContext, minidump_cpu::RawContextCPU, thread_info::ThreadInfo};

// FXSAVE area offsets inside CONTEXT.FltSave
const FX_CWD: usize = 0;
const FX_SWD: usize = 2;
const FX_FTW: usize = 4;
const FX_FOP: usize = 6;
const FX_MXCSR: usize = 24;
const FX_MXCSR_MASK: usize = 28;
const FX_ST: usize = 32;
const FX_XMM: usize = 160;

pub fn sym_thread_info() -> ThreadInfo {
    let regs: [u64; 27] = kani::any();
    let fp: [u32; 128] = kani::any();
    let dregs: [u64; 8] = kani::any();
    let regs: libc::user_regs_struct = unsafe { core::mem::transmute(regs) };
    let fpregs: libc::user_fpregs_struct = unsafe { core::mem::transmute(fp) };
    ThreadInfo { stack_pointer: regs.rsp as usize, tgid: kani::any(), ppid: kani::any(), regs, fpregs, dregs }
}

pub fn check_ptrace_context(info: &ThreadInfo, out: &RawContextCPU) {
    let r = &info.regs;
    assert_eq!(out.rax, r.rax);
    assert_eq!(out.rbx, r.rbx);
    assert_eq!(out.rcx, r.rcx);
    assert_eq!(out.rdx, r.rdx);
    assert_eq!(out.rsi, r.rsi);
    assert_eq!(out.rdi, r.rdi);
    assert_eq!(out.rbp, r.rbp);
    assert_eq!(out.rsp, r.rsp);
    assert_eq!(out.r8, r.r8);
    assert_eq!(out.r9, r.r9);
    assert_eq!(out.r10, r.r10);
    assert_eq!(out.r11, r.r11);
    assert_eq!(out.r12, r.r12);
    assert_eq!(out.r13, r.r13);
    assert_eq!(out.r14, r.r14);
    assert_eq!(out.r15, r.r15);
    assert_eq!(out.rip, r.rip);
    assert_eq!(out.eflags, r.eflags as u32);
    assert_eq!(out.cs, r.cs as u16);
    assert_eq!(out.ds, r.ds as u16);
    assert_eq!(out.es, r.es as u16);
    assert_eq!(out.fs, r.fs as u16);
    assert_eq!(out.gs, r.gs as u16);
    assert_eq!(out.ss, r.ss as u16);
    assert_eq!(out.dr0, info.dregs[0]);
    assert_eq!(out.dr1, info.dregs[1]);
    assert_eq!(out.dr2, info.dregs[2]);
    assert_eq!(out.dr3, info.dregs[3]);
    assert_eq!(out.dr6, info.dregs[6]);
    assert_eq!(out.dr7, info.dregs[7]);
    // CONTEXT_AMD64_FULL | SEGMENTS = CONTROL|INTEGER|FLOATING_POINT|SEGMENTS with the AMD64 tag
    assert_eq!(out.context_flags, 0x0010_0000 | 0x1 | 0x2 | 0x8 | 0x4);
    let f = &info.fpregs;
    let fs = &out.float_save;
    assert_eq!(rd_u16(fs, FX_CWD), f.cwd);
    assert_eq!(rd_u16(fs, FX_SWD), f.swd);
    assert_eq!(fs[FX_FTW], f.ftw as u8);
    assert_eq!(rd_u16(fs, FX_FOP), f.fop);
    assert_eq!(rd_u32(fs, FX_MXCSR), f.mxcsr);
    assert_eq!(rd_u32(fs, FX_MXCSR_MASK), f.mxcr_mask);
    let i: usize = kani::any();
    kani::assume(i < 32);
    assert_eq!(rd_u32(fs, FX_ST + 4 * i), f.st_space[i], "x87 register lane");
    let j: usize = kani::any();
    kani::assume(j < 64);
    assert_eq!(rd_u32(fs, FX_XMM + 4 * j), f.xmm_space[j], "XMM register lane");
}

#[kani::proof]
#[kani::unwind(3)]
fn c04_ptrace_regs_to_context() {
    let info = sym_thread_info();
    let mut out = RawContextCPU::default();
    info.fill_cpu_context(&mut out);
    check_ptrace_context(&info, &out);
    assert_eq!(info.get_instruction_pointer(), info.regs.rip as usize);
    kani::cover!(info.regs.rsi != info.regs.rdi && info.regs.cs > 0xffff, "distinct registers, selector with high bits");
}

pub fn sym_crash_context() -> CrashContext {
    let mut cc: crash_context::CrashContext = unsafe { core::mem::zeroed() };
    cc.context.uc_mcontext.gregs = kani::any();
    cc.float_state.cwd = kani::any();
    cc.float_state.swd = kani::any();
    cc.float_state.ftw = kani::any();
    cc.float_state.fop = kani::any();
    cc.float_state.rip = kani::any();
    cc.float_state.rdp = kani::any();
    cc.float_state.mxcsr = kani::any();
    cc.float_state.mxcr_mask = kani::any();
    cc.float_state.st_space = kani::any();
    cc.float_state.xmm_space = kani::any();
    cc.siginfo.ssi_signo = kani::any();
    cc.siginfo.ssi_code = kani::any();
    cc.siginfo.ssi_addr = kani::any();
    cc.pid = kani::any();
    cc.tid = kani::any();
    CrashContext { inner: cc }
}

// Linux x86-64 ucontext gregs indices (sys/ucontext.h)
const G_R8: usize = 0;
const G_R15: usize = 7;
const G_RDI: usize = 8;
const G_RSI: usize = 9;
const G_RBP: usize = 10;
const G_RBX: usize = 11;
const G_RDX: usize = 12;
const G_RAX: usize = 13;
const G_RCX: usize = 14;
const G_RSP: usize = 15;
const G_RIP: usize = 16;
const G_EFL: usize = 17;
const G_CSGSFS: usize = 18;

pub fn check_crash_context(cc: &CrashContext, out: &RawContextCPU) {
    let g = &cc.inner.context.uc_mcontext.gregs;
    assert_eq!(out.r8, g[G_R8] as u64);
    assert_eq!(out.r9, g[1] as u64);
    assert_eq!(out.r10, g[2] as u64);
    assert_eq!(out.r11, g[3] as u64);
    assert_eq!(out.r12, g[4] as u64);
    assert_eq!(out.r13, g[5] as u64);
    assert_eq!(out.r14, g[6] as u64);
    assert_eq!(out.r15, g[G_R15] as u64);
    assert_eq!(out.rdi, g[G_RDI] as u64);
    assert_eq!(out.rsi, g[G_RSI] as u64);
    assert_eq!(out.rbp, g[G_RBP] as u64);
    assert_eq!(out.rbx, g[G_RBX] as u64);
    assert_eq!(out.rdx, g[G_RDX] as u64);
    assert_eq!(out.rax, g[G_RAX] as u64);
    assert_eq!(out.rcx, g[G_RCX] as u64);
    assert_eq!(out.rsp, g[G_RSP] as u64);
    assert_eq!(out.rip, g[G_RIP] as u64);
    assert_eq!(out.eflags, g[G_EFL] as u32);
    // struct { unsigned short cs, gs, fs, ss; } packed into one greg
    assert_eq!(out.cs, g[G_CSGSFS] as u16);
    assert_eq!(out.gs, (g[G_CSGSFS] >> 16) as u16);
    assert_eq!(out.fs, (g[G_CSGSFS] >> 32) as u16);
    // CONTEXT_AMD64_FULL
    assert_eq!(out.context_flags, 0x0010_0000 | 0x1 | 0x2 | 0x8);
    let f = &cc.inner.float_state;
    let fs = &out.float_save;
    assert_eq!(rd_u16(fs, FX_CWD), f.cwd);
    assert_eq!(rd_u16(fs, FX_SWD), f.swd);
    assert_eq!(fs[FX_FTW], f.ftw as u8);
    assert_eq!(rd_u16(fs, FX_FOP), f.fop);
    assert_eq!(rd_u32(fs, FX_MXCSR), f.mxcsr);
    assert_eq!(rd_u32(fs, FX_MXCSR_MASK), f.mxcr_mask);
    let i: usize = kani::any();
    kani::assume(i < 32);
    assert_eq!(rd_u32(fs, FX_ST + 4 * i), f.st_space[i], "x87 register lane");
    let j: usize = kani::any();
    kani::assume(j < 64);
    assert_eq!(rd_u32(fs, FX_XMM + 4 * j), f.xmm_space[j], "XMM register lane");
}

#[kani::proof]
#[kani::unwind(3)]
fn c05_ucontext_to_context() {
    let cc = sym_crash_context();
    let mut out = RawContextCPU::default();
    cc.fill_cpu_context(&mut out);
    check_crash_context(&cc, &out);
    assert_eq!(cc.get_instruction_pointer(), cc.inner.context.uc_mcontext.gregs[G_RIP] as usize);
    assert_eq!(cc.get_stack_pointer(), cc.inner.context.uc_mcontext.gregs[G_RSP] as usize);
    kani::cover!(out.rsi != out.rdi && out.fs != out.gs, "distinct registers");
}
