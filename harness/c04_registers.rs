//! C04 (register accuracy) / C05 (crash context attribution) - register files -> minidump CPU context.
//! Enc: ThreadInfoX86::fill_cpu_context, CrashContext::{fill_cpu_context,get_instruction_pointer,get_stack_pointer},
//! thread_info::copy_u32_registers.  Offsets below are written from the AMD64 CONTEXT / FXSAVE layouts
//! (WinNT.h, Intel SDM vol.1 10.5.1), not taken from the crate.
use super::util::*;
use crate::{linux::crash_context::CrashContext, minidump_cpu::RawContextCPU, thread_info::ThreadInfo};

// FXSAVE area offsets inside CONTEXT.FltSave
const FX_CWD: usize = 0;
const FX_SWD: usize = 2;
const FX_FTW: usize = 4;
const FX_FOP: usize = 6;
const FX_MXCSR: usize = 24;
const FX_MXCSR_MASK: usize = 28;
const FX_ST: usize = 32;
const FX_XMM: usize = 160;

pub fn sym_thread_info() -> ThreadInfo {
    let regs: [u64; 27] = kani::any();
    let fp: [u32; 128] = kani::any();
    let dregs: [u64; 8] = kani::any();
    let regs: libc::user_regs_struct = unsafe { core::mem::transmute(regs) };
    let fpregs: libc::user_fpregs_struct = unsafe { core::mem::transmute(fp) };
    ThreadInfo { stack_pointer: regs.rsp as usize, tgid: kani::any(), ppid: kani::any(), regs, fpregs, dregs }
}

pub fn check_ptrace_context(info: &ThreadInfo, out: &RawContextCPU) {
    let r = &info.regs;
    assert_eq!(out.rax, r.rax);
    assert_eq!(out.rbx, r.rbx);
    assert_eq!(out.rcx, r.rcx);
    assert_eq!(out.rdx, r.rdx);
    assert_eq!(out.rsi, r.rsi);
    assert_eq!(out.rdi, r.rdi);
    assert_eq!(out.rbp, r.rbp);
    assert_eq!(out.rsp, r.rsp);
    assert_eq!(out.r8, r.r8);
    assert_eq!(out.r9, r.r9);
    assert_eq!(out.r10, r.r10);
    assert_eq!(out.r11, r.r11);
    assert_eq!(out.r12, r.r12);
    assert_eq!(out.r13, r.r13);
    assert_eq!(out.r14, r.r14);
    assert_eq!(out.r15, r.r15);
    assert_eq!(out.rip, r.rip);
    assert_eq!(out.eflags, r.eflags as u32);
    assert_eq!(out.cs, r.cs as u16);
    assert_eq!(out.ds, r.ds as u16);
    assert_eq!(out.es, r.es as u16);
    assert_eq!(out.fs, r.fs as u16);
    assert_eq!(out.gs, r.gs as u16);
    assert_eq!(out.ss, r.ss as u16);
    assert_eq!(out.dr0, info.dregs[0]);
    assert_eq!(out.dr1, info.dregs[1]);
    assert_eq!(out.dr2, info.dregs[2]);
    assert_eq!(out.dr3, info.dregs[3]);
    assert_eq!(out.dr6, info.dregs[6]);
    assert_eq!(out.dr7, info.dregs[7]);
    // CONTEXT_AMD64_FULL | SEGMENTS = CONTROL|INTEGER|FLOATING_POINT|SEGMENTS with the AMD64 tag
    assert_eq!(out.context_flags, 0x0010_0000 | 0x1 | 0x2 | 0x8 | 0x4);
    let f = &info.fpregs;
    let fs = &out.float_save;
    assert_eq!(rd_u16(fs, FX_CWD), f.cwd);
    assert_eq!(rd_u16(fs, FX_SWD), f.swd);
    assert_eq!(fs[FX_FTW], f.ftw as u8);
    assert_eq!(rd_u16(fs, FX_FOP), f.fop);
    assert_eq!(rd_u32(fs, FX_MXCSR), f.mxcsr);
    assert_eq!(rd_u32(fs, FX_MXCSR_MASK), f.mxcr_mask);
    let i: usize = kani::any();
    kani::assume(i < 32);
    assert_eq!(rd_u32(fs, FX_ST + 4 * i), f.st_space[i], "x87 register lane");
    let j: usize = kani::any();
    kani::assume(j < 64);
    assert_eq!(rd_u32(fs, FX_XMM + 4 * j), f.xmm_space[j], "XMM register lane");
}

#[kani::proof]
#[kani::unwind(3)]
fn c04_ptrace_regs_to_context() {
    let info = sym_thread_info();
    let mut out = RawContextCPU::default();
    info.fill_cpu_context(&mut out);
    check_ptrace_context(&info, &out);
    assert_eq!(info.get_instruction_pointer(), info.regs.rip as usize);
    kani::cover!(info.regs.rsi != info.regs.rdi && info.regs.cs > 0xffff, "distinct registers, selector with high bits");
}

pub fn sym_crash_context() -> CrashContext {
    let mut cc: crash_context::CrashContext = unsafe { core::mem::zeroed() };
    cc.context.uc_mcontext.gregs = kani::any();
    cc.float_state.cwd = kani::any();
    cc.float_state.swd = kani::any();
    cc.float_state.ftw = kani::any();
    cc.float_state.fop = kani::any();
    cc.float_state.rip = kani::any();
    cc.float_state.rdp = kani::any();
    cc.float_state.mxcsr = kani::any();
    cc.float_state.mxcr_mask = kani::any();
    cc.float_state.st_space = kani::any();
    cc.float_state.xmm_space = kani::any();
    cc.siginfo.ssi_signo = kani::any();
    cc.siginfo.ssi_code = kani::any();
    cc.siginfo.ssi_addr = kani::any();
    cc.pid = kani::any();
    cc.tid = kani::any();
    CrashContext { inner: cc }
}

// Linux x86-64 ucontext gregs indices (sys/ucontext.h)
const G_R8: usize = 0;
const G_R15: usize = 7;
const G_RDI: usize = 8;
const G_RSI: usize = 9;
const G_RBP: usize = 10;
const G_RBX: usize = 11;
const G_RDX: usize = 12;
const G_RAX: usize = 13;
const G_RCX: usize = 14;
const G_RSP: usize = 15;
const G_RIP: usize = 16;
const G_EFL: usize = 17;
const G_CSGSFS: usize = 18;

pub fn check_crash_context(cc: &CrashContext, out: &RawContextCPU) {
    let g = &cc.inner.context.uc_mcontext.gregs;
    assert_eq!(out.r8, g[G_R8] as u64);
    assert_eq!(out.r9, g[1] as u64);
    assert_eq!(out.r10, g[2] as u64);
    assert_eq!(out.r11, g[3] as u64);
    assert_eq!(out.r12, g[4] as u64);
    assert_eq!(out.r13, g[5] as u64);
    assert_eq!(out.r14, g[6] as u64);
    assert_eq!(out.r15, g[G_R15] as u64);
    assert_eq!(out.rdi, g[G_RDI] as u64);
    assert_eq!(out.rsi, g[G_RSI] as u64);
    assert_eq!(out.rbp, g[G_RBP] as u64);
    assert_eq!(out.rbx, g[G_RBX] as u64);
    assert_eq!(out.rdx, g[G_RDX] as u64);
    assert_eq!(out.rax, g[G_RAX] as u64);
    assert_eq!(out.rcx, g[G_RCX] as u64);
    assert_eq!(out.rsp, g[G_RSP] as u64);
    assert_eq!(out.rip, g[G_RIP] as u64);
    assert_eq!(out.eflags, g[G_EFL] as u32);
    // struct { unsigned short cs, gs, fs, ss; } packed into one greg
    assert_eq!(out.cs, g[G_CSGSFS] as u16);
    assert_eq!(out.gs, (g[G_CSGSFS] >> 16) as u16);
    assert_eq!(out.fs, (g[G_CSGSFS] >> 32) as u16);
    // CONTEXT_AMD64_FULL
    assert_eq!(out.context_flags, 0x0010_0000 | 0x1 | 0x2 | 0x8);
    let f = &cc.inner.float_state;
    let fs = &out.float_save;
    assert_eq!(rd_u16(fs, FX_CWD), f.cwd);
    assert_eq!(rd_u16(fs, FX_SWD), f.swd);
    assert_eq!(fs[FX_FTW], f.ftw as u8);
    assert_eq!(rd_u16(fs, FX_FOP), f.fop);
    assert_eq!(rd_u32(fs, FX_MXCSR), f.mxcsr);
    assert_eq!(rd_u32(fs, FX_MXCSR_MASK), f.mxcr_mask);
    let i: usize = kani::any();
    kani::assume(i < 32);
    assert_eq!(rd_u32(fs, FX_ST + 4 * i), f.st_space[i], "x87 register lane");
    let j: usize = kani::any();
    kani::assume(j < 64);
    assert_eq!(rd_u32(fs, FX_XMM + 4 * j), f.xmm_space[j], "XMM register lane");
}

#[kani::proof]
#[kani::unwind(3)]
fn c05_ucontext_to_context() {
    let cc = sym_crash_context();
    let mut out = RawContextCPU::default();
    cc.fill_cpu_context(&mut out);
    check_crash_context(&cc, &out);
    assert_eq!(cc.get_instruction_pointer(), cc.inner.context.uc_mcontext.gregs[G_RIP] as usize);
    assert_eq!(cc.get_stack_pointer(), cc.inner.context.uc_mcontext.gregs[G_RSP] as usize);
    kani::cover!(out.rsi != out.rdi && out.fs != out.gs, "distinct registers");
}

// ---- C05: the exception record carries exactly what the caller supplied ----
// exception_stream::write on a writer configured with a crash context (every siginfo field symbolic,
// including NEGATIVE signal codes such as SI_TKILL = -6) or without one (DUMP_REQUESTED).
fn exception_record(with_crash_context: bool, ctx_kind: u8) {
    use crate::linux::minidump_writer::{CrashingThreadContext, MinidumpWriter};
    use crate::linux::sections::exception_stream;
    use crate::mem_writer::Buffer;
    use crate::minidump_format::{MDLocationDescriptor, MDStreamType};
    let mut cfg = MinidumpWriter::new(4242, 4243);
    let blamed: i32 = kani::any();
    cfg.blamed_thread = blamed;
    let loc = MDLocationDescriptor { data_size: kani::any(), rva: kani::any() };
    let addr: usize = kani::any();
    cfg.crashing_thread_context = match ctx_kind {
        0 => CrashingThreadContext::None,
        1 => CrashingThreadContext::CrashContext(loc),
        _ => CrashingThreadContext::CrashContextPlusAddress((loc, addr)),
    };
    let mut ssi = (0u32, 0i32, 0u64);
    if with_crash_context {
        let mut cc: crash_context::CrashContext = unsafe { core::mem::zeroed() };
        cc.siginfo.ssi_signo = kani::any();
        cc.siginfo.ssi_code = kani::any();
        cc.siginfo.ssi_addr = kani::any();
        ssi = (cc.siginfo.ssi_signo, cc.siginfo.ssi_code, cc.siginfo.ssi_addr);
        cfg.crash_context = Some(CrashContext { inner: cc });
    }
    let mut xb = Buffer::with_capacity(256);
    let pre: [u8; 8] = kani::any();
    xb.write_all(&pre);
    let ed = match exception_stream::write(&mut cfg, &mut xb) {
        Ok(x) => x,
        Err(e) => {
            core::mem::forget(e);
            panic!("exception_stream::write failed");
        }
    };
    assert_eq!(ed.stream_type, MDStreamType::ExceptionStream as u32);
    assert_eq!(ed.location.rva, 8);
    assert_eq!(ed.location.data_size, 168);
    assert_eq!(xb.len(), 8 + 168);
    let b = 8;
    assert_eq!(rd_u32(&xb, b), blamed as u32, "the exception names the blamed thread");
    if with_crash_context {
        assert_eq!(rd_u32(&xb, b + 8), ssi.0, "exception code == supplied signal number");
        assert_eq!(rd_u32(&xb, b + 12) as i32, ssi.1, "exception flags == supplied signal code (negative codes included)");
        assert_eq!(rd_u64(&xb, b + 24), ssi.2, "exception address == supplied fault address");
    } else {
        assert_eq!(rd_u32(&xb, b + 8), 0xFFFF_FFFF, "DUMP_REQUESTED");
        assert_eq!(rd_u32(&xb, b + 12), 0);
        assert_eq!(rd_u64(&xb, b + 24), if ctx_kind == 2 { addr as u64 } else { 0 }, "address == the blamed thread's instruction pointer, if known");
    }
    assert_eq!(rd_u64(&xb, b + 16), 0, "no chained record");
    assert_eq!(rd_u32(&xb, b + 32), 0, "no parameters");
    let (xsize, xrva) = (rd_u32(&xb, b + 160), rd_u32(&xb, b + 164));
    if ctx_kind == 0 {
        assert!(xsize == 0 && xrva == 0, "no context: empty location");
    } else {
        assert!(xsize == loc.data_size && xrva == loc.rva, "context location == the blamed thread's context");
    }
    kani::cover!(with_crash_context && ssi.1 < 0, "negative signal code (sent from user space)");
    kani::cover!(!with_crash_context || ssi.1 > 0, "kernel-raised code / no crash context");
    core::mem::forget(cfg);
}
macro_rules! exc {
    ($name:ident, $cc:expr, $kind:expr) => {
        #[kani::proof]
        #[kani::unwind(10)]
        #[kani::stub(std::vec::Vec::resize, crate::verif::env::stub_vec_resize)]
        fn $name() {
            exception_record($cc, $kind);
        }
    };
}
exc!(c05_exception_crash_ctx, true, 1);
exc!(c05_exception_crash_ctx_addr, true, 2);
exc!(c05_exception_crash_no_ctx, true, 0);
exc!(c05_exception_requested_addr, false, 2);
exc!(c05_exception_requested_none, false, 0);
