//! C18 - OS and process information streams: the parts that are crate logic rather than I/O.
//! Enc: memory_info_list_stream::get_memory_protection, auxv: From<DirectAuxvDumpInfo> / is_complete,
//! MinidumpWriter::write_file (with std::fs::read stubbed).
use super::util::*;
use crate::{
    linux::{
        auxv::{AuxvDumpInfo, DirectAuxvDumpInfo},
        minidump_writer::MinidumpWriter,
        sections::memory_info_list_stream,
    },
    mem_writer::Buffer,
};
use procfs_core::process::MMPermissions;

#[kani::proof]
#[kani::unwind(3)]
fn c18_memory_protection_table() {
    let b: u8 = kani::any();
    let p = MMPermissions::from_bits_truncate(b & 0x1f);
    let (r, w, x) = (p.contains(MMPermissions::READ), p.contains(MMPermissions::WRITE), p.contains(MMPermissions::EXECUTE));
    let got = memory_info_list_stream::verif_get_memory_protection(p).bits();
    // winnt.h: NOACCESS 1, READONLY 2, READWRITE 4, EXECUTE 0x10, EXECUTE_READ 0x20, EXECUTE_READWRITE 0x40
    let want: u32 = match (r, w, x) {
        (false, false, false) => 0x01,
        (false, false, true) => 0x10,
        (true, false, false) => 0x02,
        (true, false, true) => 0x20,
        (_, true, false) => 0x04,
        (_, true, true) => 0x40,
    };
    assert_eq!(got, want);
    kani::cover!(w && !r, "write-only maps to read-write");
}

#[kani::proof]
#[kani::unwind(3)]
fn c18_direct_auxv_precedence() {
    let d = DirectAuxvDumpInfo {
        program_header_count: kani::any(),
        program_header_address: kani::any(),
        linux_gate_address: kani::any(),
        entry_address: kani::any(),
    };
    let (a, b, c, e) = (d.program_header_count, d.program_header_address, d.linux_gate_address, d.entry_address);
    let info: AuxvDumpInfo = d.into();
    assert_eq!(info.get_program_header_count(), if a != 0 { Some(a) } else { None }, "0 means unset, any other value is kept");
    assert_eq!(info.get_program_header_address(), if b != 0 { Some(b) } else { None });
    assert_eq!(info.get_linux_gate_address(), if c != 0 { Some(c) } else { None });
    assert_eq!(info.get_entry_address(), if e != 0 { Some(e) } else { None });
    assert_eq!(info.is_complete(), a != 0 && b != 0 && c != 0 && e != 0, "complete iff all four are set (then /proc is not consulted)");
    kani::cover!(info.is_complete(), "complete");
    kani::cover!(a != 0 && e == 0, "partially set");
}

pub static mut FILE_BYTES: [u8; 8] = [0; 8];
pub fn stub_fs_read<P: AsRef<std::path::Path>>(_p: P) -> std::io::Result<Vec<u8>> {
    unsafe {
        FILE_BYTES = kani::any();
        Ok(FILE_BYTES.to_vec())
    }
}
/// the raw Linux streams are byte copies of what the file read returned
#[kani::proof]
#[kani::unwind(12)]
#[kani::stub(std::fs::read, crate::verif::c18_streams::stub_fs_read)]
fn c18_write_file_is_a_byte_copy() {
    let cfg = MinidumpWriter::new(1, 2);
    let mut buf = Buffer::with_capacity(32);
    let pre: [u8; 3] = kani::any();
    buf.write_all(&pre);
    let r = cfg.verif_write_file(&mut buf, "/proc/2/cmdline");
    match &r {
        Ok(loc) => {
            assert_eq!((loc.rva, loc.data_size), (3, 8), "location covers exactly the file content");
            assert_eq!(buf.len(), 11);
            let i: usize = kani::any();
            kani::assume(i < 8);
            assert_eq!(buf[3 + i], unsafe { FILE_BYTES[i] }, "stream byte == file byte");
        }
        Err(_) => panic!("write_file failed although the read succeeded"),
    }
    kani::cover!(r.is_ok(), "reached");
    core::mem::forget(r);
    core::mem::forget(cfg);
}

// ---- system info stream when reading the CPU information fails (C11: "all other streams intact") ----
// Real systeminfo_stream::write and real dumper_cpu_info::write_cpu_information; the environment is
// scripted: uname (os_information) returns a fixed string, /proc/cpuinfo cannot be opened (A) or is
// empty (B: File::open gives a dummy handle, BufRead::read_line reports EOF, so no entry is found).
pub fn stub_os_information() -> (minidump_common::format::PlatformId, String) {
    (minidump_common::format::PlatformId::Linux, String::from("Linux 6"))
}
pub fn stub_open_fails<P: AsRef<std::path::Path>>(_p: P) -> std::io::Result<std::fs::File> {
    Err(std::io::Error::from(std::io::ErrorKind::NotFound))
}
fn systeminfo_cpu_failure() {
    use crate::errors::SectionSystemInfoError;
    use crate::linux::sections::systeminfo_stream;
    use error_graph::ErrorList;
    let mut buf = Buffer::with_capacity(160);
    let pre: [u8; 4] = kani::any();
    buf.write_all(&pre);
    let mut errs: ErrorList<SectionSystemInfoError> = ErrorList::default();
    let dirent = match systeminfo_stream::write(&mut buf, &mut errs) {
        Ok(d) => d,
        Err(e) => {
            core::mem::forget(e);
            panic!("a CPU-information failure must not fail the system info stream");
        }
    };
    assert_eq!(dirent.stream_type, crate::minidump_format::MDStreamType::SystemInfoStream as u32);
    assert_eq!(dirent.location.rva, 4);
    assert_eq!(dirent.location.data_size, 56);
    let b = 4usize;
    assert_eq!(rd_u16(&buf, b), 9, "processor architecture is AMD64 whatever happened to /proc/cpuinfo");
    assert_eq!(rd_u32(&buf, b + 20), 0x8201, "platform id: Linux");
    let csd = rd_u32(&buf, b + 24) as usize;
    assert_eq!(csd, b + 56, "OS version string follows the record");
    assert_eq!(rd_u32(&buf, csd), 14, "\"Linux 6\" = 7 UTF-16 units");
    assert_eq!(rd_u16(&buf, csd + 4), b'L' as u16);
    assert_eq!(rd_u16(&buf, csd + 4 + 12), b'6' as u16);
    assert_eq!(errs.len(), 1, "exactly one soft error");
    let ok = match errs.iter().next() {
        Some(SectionSystemInfoError::WriteCpuInformationFailed(_)) => true,
        _ => false,
    };
    assert!(ok, "reported as WriteCpuInformationFailed");
    kani::cover!(true, "reached");
    core::mem::forget(errs);
}
#[kani::proof]
#[kani::unwind(20)]
#[kani::stub(crate::linux::dumper_cpu_info::os_information, crate::verif::c18_streams::stub_os_information)]
#[kani::stub(std::fs::File::open, crate::verif::c18_streams::stub_open_fails)]
#[kani::stub(std::fmt::format, crate::verif::env::stub_format)]
#[kani::stub(std::vec::Vec::resize, crate::verif::env::stub_vec_resize)]
fn c11_systeminfo_cpuinfo_unreadable() {
    systeminfo_cpu_failure();
}
#[kani::proof]
#[kani::unwind(20)]
#[kani::stub(crate::linux::dumper_cpu_info::os_information, crate::verif::c18_streams::stub_os_information)]
#[kani::stub(std::fs::File::open, crate::verif::c08_modules::stub_file_open_dummy)]
#[kani::stub(std::io::BufRead::read_line, crate::verif::c08_modules::StubReadLine::stub_read_line)]
#[kani::stub(<std::os::fd::OwnedFd as core::ops::Drop>::drop, crate::verif::c08_modules::stub_ownedfd_drop)]
#[kani::stub(std::fmt::format, crate::verif::env::stub_format)]
#[kani::stub(std::vec::Vec::resize, crate::verif::env::stub_vec_resize)]
fn c11_systeminfo_cpuinfo_empty() {
    systeminfo_cpu_failure();
}

// ---- memory-info list: one entry per memory-map line, same range, protection and private/shared type ----
// `MemoryMaps::from_file` is a default method of the foreign trait `procfs_core::FromRead`; it is replaced
// by a trait default method of our own (DESIGN 0.5) that hands back the scripted lines.  The REAL
// memory_info_list_stream::write turns them into the stream.
pub static mut MIL_LINES: [(u64, u64, u8); 3] = [(0, 0, 0); 3];
pub static mut MIL_N: usize = 0;
pub trait StubMapsFromFile: Sized {
    fn stub_from_file<P: AsRef<std::path::Path>>(_path: P) -> procfs_core::ProcResult<Self> {
        use procfs_core::process::{MMapPath, MemoryMap, MemoryMaps};
        assert!(core::mem::size_of::<Self>() == core::mem::size_of::<MemoryMaps>());
        let mut v: Vec<MemoryMap> = Vec::with_capacity(3);
        unsafe {
            let mut i = 0;
            while i < MIL_N {
                v.push(MemoryMap {
                    address: (MIL_LINES[i].0, MIL_LINES[i].1),
                    perms: MMPermissions::from_bits_truncate(MIL_LINES[i].2),
                    offset: 0,
                    dev: (0, 0),
                    inode: 0,
                    pathname: MMapPath::Anonymous,
                    extension: Default::default(),
                });
                i += 1;
            }
            let maps: MemoryMaps = core::mem::transmute::<Vec<MemoryMap>, MemoryMaps>(v);
            let out: Self = core::ptr::read(&maps as *const MemoryMaps as *const Self);
            core::mem::forget(maps);
            Ok(out)
        }
    }
}
impl StubMapsFromFile for procfs_core::process::MemoryMaps {}

fn memory_info_list<const N: usize>() {
    use crate::linux::sections::memory_info_list_stream;
    let mut lines = [(0u64, 0u64, 0u8); N];
    let mut cur: u64 = kani::any();
    kani::assume(cur >= 0x1000 && cur < (1u64 << 46));
    for i in 0..N {
        let gap: u64 = kani::any();
        let len: u64 = kani::any();
        let perms: u8 = kani::any();
        kani::assume(gap <= 0x10_0000 && len >= 1 && len <= (1u64 << 40));
        lines[i] = (cur + gap, cur + gap + len, perms & 0x1f);
        cur = cur + gap + len;
    }
    unsafe {
        MIL_N = N;
        for i in 0..N {
            MIL_LINES[i] = lines[i];
        }
    }
    let mut cfg = MinidumpWriter::new(4242, 4243);
    let mut buf = Buffer::with_capacity(200);
    let pre: [u8; 8] = kani::any();
    buf.write_all(&pre);
    let dirent = match memory_info_list_stream::write(&mut cfg, &mut buf) {
        Ok(d) => d,
        Err(e) => {
            core::mem::forget(e);
            panic!("memory_info_list_stream::write failed");
        }
    };
    assert_eq!(dirent.stream_type, crate::minidump_format::MDStreamType::MemoryInfoListStream as u32);
    let rva = dirent.location.rva as usize;
    assert_eq!(rva, 8);
    assert_eq!(dirent.location.data_size as usize, 16 + 48 * N, "header + one 48-byte entry per line");
    assert_eq!(buf.len(), rva + 16 + 48 * N);
    assert_eq!(rd_u32(&buf, rva), 16, "size of header");
    assert_eq!(rd_u32(&buf, rva + 4), 48, "size of entry");
    assert_eq!(rd_u64(&buf, rva + 8), N as u64, "one entry per memory-map line");
    let i: usize = kani::any();
    kani::assume(i < N);
    let e = rva + 16 + 48 * i;
    let (lo, hi, p) = lines[i];
    let perms = MMPermissions::from_bits_truncate(p);
    let (r, w, x) = (perms.contains(MMPermissions::READ), perms.contains(MMPermissions::WRITE), perms.contains(MMPermissions::EXECUTE));
    let prot: u32 = match (r, w, x) {
        (false, false, false) => 0x01,
        (false, false, true) => 0x10,
        (true, false, false) => 0x02,
        (true, false, true) => 0x20,
        (_, true, false) => 0x04,
        (_, true, true) => 0x40,
    };
    assert_eq!(rd_u64(&buf, e), lo, "base address of line i");
    assert_eq!(rd_u64(&buf, e + 8), lo, "allocation base");
    assert_eq!(rd_u32(&buf, e + 16), prot, "allocation protection");
    assert_eq!(rd_u64(&buf, e + 24), hi - lo, "region size of line i");
    assert_eq!(rd_u32(&buf, e + 32), 0x1000, "state: committed");
    assert_eq!(rd_u32(&buf, e + 36), prot, "protection");
    assert_eq!(rd_u32(&buf, e + 40), if perms.contains(MMPermissions::PRIVATE) { 0x20000 } else { 0x40000 }, "private / mapped");
    kani::cover!(perms.contains(MMPermissions::PRIVATE) && w, "a private writable line");
    kani::cover!(!perms.contains(MMPermissions::PRIVATE), "a shared line");
    core::mem::forget(cfg);
}
macro_rules! mil {
    ($name:ident, $n:expr) => {
        #[kani::proof]
        #[kani::unwind(8)]
        #[kani::stub(procfs_core::FromRead::from_file, crate::verif::c18_streams::StubMapsFromFile::stub_from_file)]
        #[kani::stub(std::fmt::format, crate::verif::env::stub_format)]
        #[kani::stub(std::vec::Vec::resize, crate::verif::env::stub_vec_resize)]
        #[kani::stub(std::hash::RandomState::new, crate::verif::c13_aggregate::stub_random_state_new)]
        fn $name() {
            memory_info_list::<$n>();
        }
    };
}
mil!(c18_memory_info_list_1, 1);
mil!(c18_memory_info_list_2, 2);
mil!(c18_memory_info_list_3, 3);
