//! C18 - OS and process information streams: the parts that are crate logic rather than I/O.
//! Enc: memory_info_list_stream::get_memory_protection, auxv: From<DirectAuxvDumpInfo> / is_complete,
//! MinidumpWriter::write_file (with std::fs::read stubbed).
use super::util::*;
use crate::{
    linux::{
        auxv::{AuxvDumpInfo, DirectAuxvDumpInfo},
        minidump_writer::MinidumpWriter,
        sections::memory_info_list_stream,
    },
    mem_writer::Buffer,
};
use procfs_core::process::MMPermissions;

#[kani::proof]
#[kani::unwind(3)]
fn c18_memory_protection_table() {
    let b: u8 = kani::any();
    let p = MMPermissions::from_bits_truncate(b & 0x1f);
    let (r, w, x) = (p.contains(MMPermissions::READ), p.contains(MMPermissions::WRITE), p.contains(MMPermissions::EXECUTE));
    let got = memory_info_list_stream::verif_get_memory_protection(p).bits();
    // winnt.h: NOACCESS 1, READONLY 2, READWRITE 4, EXECUTE 0x10, EXECUTE_READ 0x20, EXECUTE_READWRITE 0x40
    let want: u32 = match (r, w, x) {
        (false, false, false) => 0x01,
        (false, false, true) => 0x10,
        (true, false, false) => 0x02,
        (true, false, true) => 0x20,
        (_, true, false) => 0x04,
        (_, true, true) => 0x40,
    };
    assert_eq!(got, want);
    kani::cover!(w && !r, "write-only maps to read-write");
}

#[kani::proof]
#[kani::unwind(3)]
fn c18_direct_auxv_precedence() {
    let d = DirectAuxvDumpInfo {
        program_header_count: kani::any(),
        program_header_address: kani::any(),
        linux_gate_address: kani::any(),
        entry_address: kani::any(),
    };
    let (a, b, c, e) = (d.program_header_count, d.program_header_address, d.linux_gate_address, d.entry_address);
    let info: AuxvDumpInfo = d.into();
    assert_eq!(info.get_program_header_count(), if a != 0 { Some(a) } else { None }, "0 means unset, any other value is kept");
    assert_eq!(info.get_program_header_address(), if b != 0 { Some(b) } else { None });
    assert_eq!(info.get_linux_gate_address(), if c != 0 { Some(c) } else { None });
    assert_eq!(info.get_entry_address(), if e != 0 { Some(e) } else { None });
    assert_eq!(info.is_complete(), a != 0 && b != 0 && c != 0 && e != 0, "complete iff all four are set (then /proc is not consulted)");
    kani::cover!(info.is_complete(), "complete");
    kani::cover!(a != 0 && e == 0, "partially set");
}

pub static mut FILE_BYTES: [u8; 8] = [0; 8];
pub fn stub_fs_read<P: AsRef<std::path::Path>>(_p: P) -> std::io::Result<Vec<u8>> {
    unsafe {
        FILE_BYTES = kani::any();
        Ok(FILE_BYTES.to_vec())
    }
}
/// the raw Linux streams are byte copies of what the file read returned
#[kani::proof]
#[kani::unwind(12)]
#[kani::stub(std::fs::read, crate::verif::c18_streams::stub_fs_read)]
fn c18_write_file_is_a_byte_copy() {
    let cfg = MinidumpWriter::new(1, 2);
    let mut buf = Buffer::with_capacity(32);
    let pre: [u8; 3] = kani::any();
    buf.write_all(&pre);
    let r = cfg.verif_write_file(&mut buf, "/proc/2/cmdline");
    match &r {
        Ok(loc) => {
            assert_eq!((loc.rva, loc.data_size), (3, 8), "location covers exactly the file content");
            assert_eq!(buf.len(), 11);
            let i: usize = kani::any();
            kani::assume(i < 8);
            assert_eq!(buf[3 + i], unsafe { FILE_BYTES[i] }, "stream byte == file byte");
        }
        Err(_) => panic!("write_file failed although the read succeeded"),
    }
    kani::cover!(r.is_ok(), "reached");
    core::mem::forget(r);
    core::mem::forget(cfg);
}

// ---- system info stream when reading the CPU information fails (C11: "all other streams intact") ----
// Real systeminfo_stream::write and real dumper_cpu_info::write_cpu_information; the environment is
// scripted: uname (os_information) returns a fixed string, /proc/cpuinfo cannot be opened (A) or is
// empty (B: File::open gives a dummy handle, BufRead::read_line reports EOF, so no entry is found).
pub fn stub_os_information() -> (minidump_common::format::PlatformId, String) {
    (minidump_common::format::PlatformId::Linux, String::from("Linux 6"))
}
pub fn stub_open_fails<P: AsRef<std::path::Path>>(_p: P) -> std::io::Result<std::fs::File> {
    Err(std::io::Error::from(std::io::ErrorKind::NotFound))
}
fn systeminfo_cpu_failure() {
    use crate::errors::SectionSystemInfoError;
    use crate::linux::sections::systeminfo_stream;
    use error_graph::ErrorList;
    let mut buf = Buffer::with_capacity(160);
    let pre: [u8; 4] = kani::any();
    buf.write_all(&pre);
    let mut errs: ErrorList<SectionSystemInfoError> = ErrorList::default();
    let dirent = match systeminfo_stream::write(&mut buf, &mut errs) {
        Ok(d) => d,
        Err(e) => {
            core::mem::forget(e);
            panic!("a CPU-information failure must not fail the system info stream");
        }
    };
    assert_eq!(dirent.stream_type, crate::minidump_format::MDStreamType::SystemInfoStream as u32);
    assert_eq!(dirent.location.rva, 4);
    assert_eq!(dirent.location.data_size, 56);
    let b = 4usize;
    assert_eq!(rd_u16(&buf, b), 9, "processor architecture is AMD64 whatever happened to /proc/cpuinfo");
    assert_eq!(rd_u32(&buf, b + 20), 0x8201, "platform id: Linux");
    let csd = rd_u32(&buf, b + 24) as usize;
    assert_eq!(csd, b + 56, "OS version string follows the record");
    assert_eq!(rd_u32(&buf, csd), 14, "\"Linux 6\" = 7 UTF-16 units");
    assert_eq!(rd_u16(&buf, csd + 4), b'L' as u16);
    assert_eq!(rd_u16(&buf, csd + 4 + 12), b'6' as u16);
    assert_eq!(errs.len(), 1, "exactly one soft error");
    let ok = match errs.iter().next() {
        Some(SectionSystemInfoError::WriteCpuInformationFailed(_)) => true,
        _ => false,
    };
    assert!(ok, "reported as WriteCpuInformationFailed");
    kani::cover!(true, "reached");
    core::mem::forget(errs);
}
#[kani::proof]
#[kani::unwind(20)]
#[kani::stub(crate::linux::dumper_cpu_info::os_information, crate::verif::c18_streams::stub_os_information)]
#[kani::stub(std::fs::File::open, crate::verif::c18_streams::stub_open_fails)]
#[kani::stub(std::fmt::format, crate::verif::env::stub_format)]
#[kani::stub(std::vec::Vec::resize, crate::verif::env::stub_vec_resize)]
fn c11_systeminfo_cpuinfo_unreadable() {
    systeminfo_cpu_failure();
}
#[kani::proof]
#[kani::unwind(20)]
#[kani::stub(crate::linux::dumper_cpu_info::os_information, crate::verif::c18_streams::stub_os_information)]
#[kani::stub(std::fs::File::open, crate::verif::c08_modules::stub_file_open_dummy)]
#[kani::stub(std::io::BufRead::read_line, crate::verif::c08_modules::StubReadLine::stub_read_line)]
#[kani::stub(<std::os::fd::OwnedFd as core::ops::Drop>::drop, crate::verif::c08_modules::stub_ownedfd_drop)]
#[kani::stub(std::fmt::format, crate::verif::env::stub_format)]
#[kani::stub(std::vec::Vec::resize, crate::verif::env::stub_vec_resize)]
fn c11_systeminfo_cpuinfo_empty() {
    systeminfo_cpu_failure();
}
