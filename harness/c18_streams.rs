//! C18 - OS and process information streams: the parts that are crate logic rather than I/O.
//! Enc: memory_info_list_stream::get_memory_protection, auxv: From<DirectAuxvDumpInfo> / is_complete,
//! MinidumpWriter::write_file (with std::fs::read stubbed).
use super::util::*;
use crate::{
    linux::{
        auxv::{AuxvDumpInfo, DirectAuxvDumpInfo},
        minidump_writer::MinidumpWriter,
        sections::memory_info_list_stream,
    },
    mem_writer::Buffer,
};
use procfs_core::process::MMPermissions;

#[kani::proof]
#[kani::unwind(3)]
fn c18_memory_protection_table() {
    let b: u8 = kani::any();
    let p = MMPermissions::from_bits_truncate(b & 0x1f);
    let (r, w, x) = (p.contains(MMPermissions::READ), p.contains(MMPermissions::WRITE), p.contains(MMPermissions::EXECUTE));
    let got = memory_info_list_stream::verif_get_memory_protection(p).bits();
    // winnt.h: NOACCESS 1, READONLY 2, READWRITE 4, EXECUTE 0x10, EXECUTE_READ 0x20, EXECUTE_READWRITE 0x40
    let want: u32 = match (r, w, x) {
        (false, false, false) => 0x01,
        (false, false, true) => 0x10,
        (true, false, false) => 0x02,
        (true, false, true) => 0x20,
        (_, true, false) => 0x04,
        (_, true, true) => 0x40,
    };
    assert_eq!(got, want);
    kani::cover!(w && !r, "write-only maps to read-write");
}

#[kani::proof]
#[kani::unwind(3)]
fn c18_direct_auxv_precedence() {
    let d = DirectAuxvDumpInfo {
        program_header_count: kani::any(),
        program_header_address: kani::any(),
        linux_gate_address: kani::any(),
        entry_address: kani::any(),
    };
    let (a, b, c, e) = (d.program_header_count, d.program_header_address, d.linux_gate_address, d.entry_address);
    let info: AuxvDumpInfo = d.into();
    assert_eq!(info.get_program_header_count(), if a != 0 { Some(a) } else { None }, "0 means unset, any other value is kept");
    assert_eq!(info.get_program_header_address(), if b != 0 { Some(b) } else { None });
    assert_eq!(info.get_linux_gate_address(), if c != 0 { Some(c) } else { None });
    assert_eq!(info.get_entry_address(), if e != 0 { Some(e) } else { None });
    assert_eq!(info.is_complete(), a != 0 && b != 0 && c != 0 && e != 0, "complete iff all four are set (then /proc is not consulted)");
    kani::cover!(info.is_complete(), "complete");
    kani::cover!(a != 0 && e == 0, "partially set");
}

pub static mut FILE_BYTES: [u8; 8] = [0; 8];
pub fn stub_fs_read<P: AsRef<std::path::Path>>(_p: P) -> std::io::Result<Vec<u8>> {
    unsafe {
        FILE_BYTES = kani::any();
        Ok(FILE_BYTES.to_vec())
    }
}
/// the raw Linux streams are byte copies of what the file read returned
#[kani::proof]
#[kani::unwind(12)]
#[kani::stub(std::fs::read, crate::verif::c18_streams::stub_fs_read)]
fn c18_write_file_is_a_byte_copy() {
    let cfg = MinidumpWriter::new(1, 2);
    let mut buf = Buffer::with_capacity(32);
    let pre: [u8; 3] = kani::any();
    buf.write_all(&pre);
    let r = cfg.verif_write_file(&mut buf, "/proc/2/cmdline");
    match &r {
        Ok(loc) => {
            assert_eq!((loc.rva, loc.data_size), (3, 8), "location covers exactly the file content");
            assert_eq!(buf.len(), 11);
            let i: usize = kani::any();
            kani::assume(i < 8);
            assert_eq!(buf[3 + i], unsafe { FILE_BYTES[i] }, "stream byte == file byte");
        }
        Err(_) => panic!("write_file failed although the read succeeded"),
    }
    kani::cover!(r.is_ok(), "reached");
    core::mem::forget(r);
    core::mem::forget(cfg);
}
