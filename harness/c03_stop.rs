//! C03 / C11 - SIGSTOP / SIGCONT pairing: the REAL `PtraceDumper::init` with the REAL `stop_process`
//! (poll loop over /proc/<pid>/stat with a timeout), then the REAL `Drop`.
//! Environment: `kill`, `Stat::from_file`, `Instant::now`, `thread::sleep` are scripted; the other three
//! init steps are the scripted stubs of c11_init.  Whatever stop_process observed - stopped at the first
//! poll, stopped later, never (timeout), stat unreadable, SIGSTOP refused - a delivered SIGSTOP is followed
//! by exactly one SIGCONT when the dumper goes away, init succeeds, and a failed stop is one soft error.
use super::util::*;
use crate::linux::ptrace_dumper::{InitError, PtraceDumper};
use error_graph::ErrorList;
use nix::sys::signal::Signal;
use procfs_core::{process::Stat, ProcError, ProcResult};
use std::time::{Duration, Instant};
const PID: i32 = 4242;

/// per poll: 0 = running ('R'), 1 = stopped ('T'), 2 = stat unreadable, 3 = traced stop ('t'), 4 = zombie ('Z')
pub static mut STAT_SCRIPT: [u8; 4] = [0; 4];
pub static mut STAT_CALLS: usize = 0;
pub static mut NOW_CALLS: u64 = 0;
pub static mut SLEEPS: usize = 0;
pub static mut SIGSTOP_REFUSED: bool = false;
pub static mut SIGSTOPS_DELIVERED: usize = 0;
pub static mut SIGCONTS: usize = 0;
pub static mut SIGCONT_BEFORE_STOP: usize = 0;
pub static mut OTHER_KILLS: usize = 0;

pub fn stub_kill<T: Into<Option<Signal>>>(pid: nix::unistd::Pid, signal: T) -> nix::Result<()> {
    let signal: Option<Signal> = signal.into();
    unsafe {
        if pid.as_raw() != PID {
            OTHER_KILLS += 1;
            return Ok(());
        }
        match signal {
            Some(Signal::SIGSTOP) => {
                if SIGSTOP_REFUSED {
                    return Err(nix::Error::EPERM);
                }
                SIGSTOPS_DELIVERED += 1;
            }
            Some(Signal::SIGCONT) => {
                if SIGSTOPS_DELIVERED == 0 {
                    SIGCONT_BEFORE_STOP += 1;
                }
                SIGCONTS += 1;
            }
            _ => OTHER_KILLS += 1,
        }
    }
    Ok(())
}
/// `Stat::from_file` is the default method of the foreign trait `procfs_core::FromRead`; the stub replaces
/// that default method (its only instantiation reachable from the harness is `Self = Stat`).
pub trait StubFromFile: Sized {
    fn stub_from_file<P: AsRef<std::path::Path>>(_path: P) -> ProcResult<Self> {
        assert!(core::mem::size_of::<Self>() == core::mem::size_of::<Stat>());
        match scripted_stat() {
            Ok(st) => {
                // Self is Stat in the only instantiation: a typed read through a cast pointer (a byte-wise
                // transmute_copy loses the provenance of the String pointer under CBMC)
                let out: Self = unsafe { core::ptr::read(&st as *const Stat as *const Self) };
                core::mem::forget(st);
                Ok(out)
            }
            Err(e) => Err(e),
        }
    }
}
impl StubFromFile for Stat {}
fn scripted_stat() -> ProcResult<Stat> {
    unsafe {
        let n = STAT_CALLS;
        STAT_CALLS = n + 1;
        assert!(n < 4, "poll script exhausted");
        let c = match STAT_SCRIPT[n] {
            0 => 'R',
            1 => 'T',
            2 => return Err(ProcError::Incomplete(None)),
            3 => 't',
            _ => 'Z',
        };
        // `Stat` is #[non_exhaustive]: start from zero bits and fill the two fields that are looked at / dropped
        let mut s: Stat = core::mem::MaybeUninit::zeroed().assume_init();
        core::ptr::write(&mut s.comm, String::with_capacity(1));
        s.pid = PID;
        s.state = c;
        Ok(s)
    }
}
/// A clock that advances one second per reading (the poll loop reads it once per iteration).
pub fn stub_instant_now() -> Instant {
    unsafe {
        NOW_CALLS += 1;
        let base: Instant = core::mem::MaybeUninit::zeroed().assume_init();
        base + Duration::from_secs(NOW_CALLS)
    }
}
pub fn stub_sleep(_d: Duration) {
    unsafe { SLEEPS += 1 };
}

fn run(script: [u8; 4], refused: bool, timeout_s: u64, expect_stop_ok: bool) {
    unsafe {
        STAT_SCRIPT = script;
        STAT_CALLS = 0;
        NOW_CALLS = 0;
        SLEEPS = 0;
        SIGSTOP_REFUSED = refused;
        SIGSTOPS_DELIVERED = 0;
        SIGCONTS = 0;
        SIGCONT_BEFORE_STOP = 0;
        OTHER_KILLS = 0;
        super::c11_init::STEP_FAILS = [false; 4];
        super::c11_init::STEP_CALLS = [0; 4];
    }
    let mut d = dumper(Vec::new(), Vec::new(), 0);
    let mut errs: ErrorList<InitError> = ErrorList::default();
    let r = d.init(Duration::from_secs(timeout_s), &mut errs);
    assert!(r.is_ok(), "failing to stop the process never makes init fail");
    unsafe {
        assert_eq!(SIGSTOPS_DELIVERED, if refused { 0 } else { 1 }, "exactly one SIGSTOP is sent");
        assert_eq!(SIGCONTS, 0, "the process is not continued while the dumper is alive");
    }
    if expect_stop_ok {
        assert_eq!(errs.len(), 0, "no soft error when the stop was observed");
    } else {
        assert_eq!(errs.len(), 1, "a failed stop is exactly one soft error");
        let ok = match errs.iter().next() {
            Some(InitError::StopProcessFailed(_)) => true,
            _ => false,
        };
        assert!(ok, "reported as StopProcessFailed");
    }
    for k in 1..4 {
        assert_eq!(unsafe { super::c11_init::STEP_CALLS[k] }, 1, "the remaining steps still run");
    }
    drop(d);
    unsafe {
        if !refused {
            assert_eq!(SIGCONTS, 1, "a delivered SIGSTOP is answered by exactly one SIGCONT when the dumper goes away");
        } else {
            assert!(SIGCONTS <= 1);
        }
        assert_eq!(OTHER_KILLS, 0, "no other signal is sent");
    }
    kani::cover!(true, "end reached");
    core::mem::forget(errs);
    core::mem::forget(r);
}

macro_rules! stop {
    ($name:ident, $script:expr, $refused:expr, $timeout:expr, $ok:expr) => {
        #[kani::proof]
        #[kani::unwind(8)]
        #[kani::stub(nix::sys::signal::kill, crate::verif::c03_stop::stub_kill)]
        #[kani::stub(procfs_core::FromRead::from_file, crate::verif::c03_stop::StubFromFile::stub_from_file)]
        #[kani::stub(std::time::Instant::now, crate::verif::c03_stop::stub_instant_now)]
        #[kani::stub(std::thread::sleep, crate::verif::c03_stop::stub_sleep)]
        #[kani::stub(crate::linux::auxv::AuxvDumpInfo::try_filling_missing_info, crate::verif::c11_init::stub_fill_auxv)]
        #[kani::stub(crate::linux::ptrace_dumper::PtraceDumper::enumerate_threads, crate::verif::c11_init::stub_enumerate_threads)]
        #[kani::stub(crate::linux::ptrace_dumper::PtraceDumper::enumerate_mappings, crate::verif::c11_init::stub_enumerate_mappings)]
        #[kani::stub(nix::unistd::sysconf, crate::verif::c11_init::stub_sysconf)]
        #[kani::stub(std::fmt::format, crate::verif::env::stub_format)]
        fn $name() {
            run($script, $refused, $timeout, $ok);
        }
    };
}
stop!(c03_stop_seen_at_once, [1, 0, 0, 0], false, 1, true);
stop!(c03_stop_seen_later, [0, 1, 0, 0], false, 2, true);
stop!(c03_stop_timeout, [0, 0, 0, 0], false, 1, false);
stop!(c03_stop_timeout_zombie_leader, [4, 4, 4, 4], false, 1, false);
stop!(c03_stop_traced_is_not_stopped, [3, 3, 3, 3], false, 1, false);
stop!(c03_stop_stat_unreadable, [2, 0, 0, 0], false, 1, false);
stop!(c03_stop_stat_unreadable_later, [0, 2, 0, 0], false, 3, false);
stop!(c03_stop_refused, [0, 0, 0, 0], true, 1, false);
