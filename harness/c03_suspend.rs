//! C03 - the target is left running and undisturbed (attach / wait / re-inject / detach / SIGCONT).
//! Enc: PtraceDumper::{suspend_thread, suspend_threads, resume_thread, resume_threads, Drop,
//! continue_process}, ptrace_detach.
//! The syscalls are contract stubs over ghost state; what each stub returns is scripted per
//! harness instance (an outcome changes control flow, so it is a shape); the intercepted signal
//! is chosen symbolically among two, thread ids are concrete.
use super::util::*;
use crate::linux::ptrace_dumper::{PtraceDumper, Thread};
use error_graph::ErrorList;
use nix::{
    errno::Errno,
    sys::{signal::Signal, wait::WaitStatus},
    unistd::Pid,
};

pub const MAXT: usize = 3;
#[derive(Clone, Copy, PartialEq)]
pub enum W {
    /// waitpid -> Stopped(SIGSTOP)
    Stop,
    /// waitpid -> Stopped(some other signal) : must be re-injected
    Sig,
    /// waitpid -> Err(EINTR)
    Eintr,
    /// waitpid -> Exited (the thread died while we were attaching)
    Exited,
    /// waitpid -> Err(ECHILD)
    Fail,
}
#[derive(Clone, Copy, PartialEq)]
pub enum R {
    /// getregs -> Ok, rsp != 0
    Ok,
    /// getregs -> Ok, rsp == 0 (seccomp trusted thread)
    NullSp,
    /// getregs -> Err
    Err,
}
#[derive(Clone, Copy)]
pub struct Script {
    pub attach_ok: bool,
    pub waits: [W; 4],
    pub regs: R,
}

pub static mut TIDS: [i32; MAXT] = [0; MAXT];
pub static mut SCRIPTS: [Script; MAXT] = [Script { attach_ok: true, waits: [W::Stop; 4], regs: R::Ok }; MAXT];
pub static mut WAIT_IDX: [usize; MAXT] = [0; MAXT];
pub static mut ATTACHED: [bool; MAXT] = [false; MAXT];
pub static mut ALIVE: [bool; MAXT] = [true; MAXT];
pub static mut ATTACH_CALLS: [usize; MAXT] = [0; MAXT];
pub static mut DETACH_OK: [usize; MAXT] = [0; MAXT];
pub static mut DETACH_UNATTACHED: usize = 0;
/// signals handed out by waitpid that are not SIGSTOP, and what was re-injected with PTRACE_CONT
pub static mut HANDED: [[i32; 2]; MAXT] = [[0; 2]; MAXT];
pub static mut HANDED_N: [usize; MAXT] = [0; MAXT];
pub static mut INJECTED: [[i32; 2]; MAXT] = [[0; 2]; MAXT];
pub static mut INJECTED_N: [usize; MAXT] = [0; MAXT];
pub static mut SIGCONT_TO_PID: usize = 0;
pub static mut OTHER_KILLS: usize = 0;
pub const PID: i32 = 4242;

fn slot(tid: i32) -> usize {
    unsafe {
        let mut i = 0;
        while i < MAXT {
            if TIDS[i] == tid {
                return i;
            }
            i += 1;
        }
    }
    panic!("syscall on a thread id that is not part of the target");
}

pub fn stub_attach(pid: Pid) -> nix::Result<()> {
    let s = slot(pid.as_raw());
    unsafe {
        ATTACH_CALLS[s] += 1;
        if SCRIPTS[s].attach_ok && ALIVE[s] {
            ATTACHED[s] = true;
            Ok(())
        } else {
            Err(Errno::ESRCH)
        }
    }
}

pub fn stub_detach<T: Into<Option<Signal>>>(pid: Pid, sig: T) -> nix::Result<()> {
    let s = slot(pid.as_raw());
    let sig: Option<Signal> = sig.into();
    assert!(sig.is_none(), "detach never injects a signal of its own");
    unsafe {
        if !ALIVE[s] {
            return Err(Errno::ESRCH);
        }
        if !ATTACHED[s] {
            DETACH_UNATTACHED += 1;
            return Err(Errno::ESRCH);
        }
        ATTACHED[s] = false;
        DETACH_OK[s] += 1;
        Ok(())
    }
}

pub fn stub_waitpid<P: Into<Option<Pid>>>(pid: P, _options: Option<nix::sys::wait::WaitPidFlag>) -> nix::Result<WaitStatus> {
    let pid: Option<Pid> = pid.into();
    let pid = pid.unwrap();
    let s = slot(pid.as_raw());
    unsafe {
        assert!(ATTACHED[s], "waitpid only on an attached thread");
        let k = WAIT_IDX[s];
        assert!(k < 4, "wait script exhausted: the protocol waits more often than scripted");
        WAIT_IDX[s] = k + 1;
        match SCRIPTS[s].waits[k] {
            W::Stop => Ok(WaitStatus::Stopped(pid, Signal::SIGSTOP)),
            W::Sig => {
                // an arbitrary signal other than SIGSTOP
                let alt: bool = kani::any();
                let sig = if alt { Signal::SIGUSR1 } else { Signal::SIGCHLD };
                let n = HANDED_N[s];
                HANDED[s][n] = sig as i32;
                HANDED_N[s] = n + 1;
                Ok(WaitStatus::Stopped(pid, sig))
            }
            W::Eintr => Err(Errno::EINTR),
            W::Exited => {
                ALIVE[s] = false;
                ATTACHED[s] = false;
                Ok(WaitStatus::Exited(pid, 0))
            }
            W::Fail => Err(Errno::ECHILD),
        }
    }
}

pub fn stub_cont<T: Into<Option<Signal>>>(pid: Pid, sig: T) -> nix::Result<()> {
    let s = slot(pid.as_raw());
    let sig: Option<Signal> = sig.into();
    unsafe {
        assert!(ATTACHED[s], "PTRACE_CONT only on an attached thread");
        let n = INJECTED_N[s];
        INJECTED[s][n] = match sig {
            Some(x) => x as i32,
            None => 0,
        };
        INJECTED_N[s] = n + 1;
    }
    Ok(())
}

pub fn stub_kill<T: Into<Option<Signal>>>(pid: Pid, signal: T) -> nix::Result<()> {
    let signal: Option<Signal> = signal.into();
    unsafe {
        if pid.as_raw() == PID && signal == Some(Signal::SIGCONT) {
            SIGCONT_TO_PID += 1;
        } else {
            OTHER_KILLS += 1;
        }
    }
    Ok(())
}

pub fn stub_getregs(pid: i32) -> Result<libc::user_regs_struct, crate::errors::ThreadInfoError> {
    let s = slot(pid);
    let mut r: [u64; 27] = kani::any();
    unsafe {
        assert!(ATTACHED[s], "registers are read from a stopped, attached thread");
        match SCRIPTS[s].regs {
            R::Ok => {
                kani::assume(r[19] != 0);
            }
            R::NullSp => r[19] = 0,
            R::Err => return Err(crate::errors::ThreadInfoError::InvalidPid(String::new(), 0, 0)),
        }
        Ok(core::mem::transmute(r))
    }
}

/// does the script end with the thread suspended (retained in the thread list)?
fn script_retains(sc: &Script) -> bool {
    if !sc.attach_ok {
        return false;
    }
    let mut k = 0;
    while k < 4 {
        match sc.waits[k] {
            W::Stop => return sc.regs == R::Ok,
            W::Sig | W::Eintr => {}
            W::Exited | W::Fail => return false,
        }
        k += 1;
    }
    false
}

fn run<const NT: usize>(scripts: [Script; NT], explicit_resume: bool) {
    let mut threads = Vec::with_capacity(NT);
    unsafe {
        for i in 0..NT {
            // thread ids are concrete: with symbolic ids the ghost-state lookups (and with them every
            // Ok/Err outcome) become symbolic and the drop glue of DumperError is expanded at each
            // dropped error (measured: 14-20 GB); the protocol does not depend on the id values.
            let t: i32 = 5001 + 7 * i as i32;
            TIDS[i] = t;
            SCRIPTS[i] = scripts[i];
            WAIT_IDX[i] = 0;
            ATTACHED[i] = false;
            ALIVE[i] = true;
            ATTACH_CALLS[i] = 0;
            DETACH_OK[i] = 0;
            HANDED_N[i] = 0;
            INJECTED_N[i] = 0;
            threads.push(Thread { tid: t, name: None });
        }
        DETACH_UNATTACHED = 0;
        SIGCONT_TO_PID = 0;
        OTHER_KILLS = 0;
    }
    let mut d = dumper(threads, Vec::new(), 4096);
    let mut errs: ErrorList<crate::errors::DumperError> = ErrorList::default();
    d.suspend_threads(&mut errs);
    // retained threads == threads whose suspension succeeded, in order
    let mut expect = 0;
    for i in 0..NT {
        if script_retains(&scripts[i]) {
            assert!(expect < d.threads.len(), "a successfully suspended thread stays in the list");
            assert_eq!(d.threads[expect].tid, unsafe { TIDS[i] });
            assert!(unsafe { ATTACHED[i] }, "a retained thread is attached while the dump is taken");
            expect += 1;
        } else {
            assert!(!unsafe { ATTACHED[i] }, "a thread that is dropped from the list is not left attached");
        }
    }
    assert_eq!(d.threads.len(), expect, "only suspended threads are retained");
    assert_eq!(errs.len(), NT - expect, "every dropped thread is reported as a soft error");
    if explicit_resume {
        let mut errs2: ErrorList<crate::errors::DumperError> = ErrorList::default();
        d.resume_threads(&mut errs2);
        assert_eq!(errs2.len(), 0);
        core::mem::forget(errs2);
        for i in 0..NT {
            assert!(!unsafe { ATTACHED[i] }, "nothing attached after resume_threads");
        }
    }
    drop(d);
    unsafe {
        for i in 0..NT {
            assert!(!ATTACHED[i], "no thread remains ptrace-attached after the dumper is gone");
            assert_eq!(ATTACH_CALLS[i], 1, "one attach attempt per thread");
            if script_retains(&scripts[i]) {
                assert_eq!(DETACH_OK[i], 1, "a retained thread is detached exactly once");
            }
            // every signal that interrupted the attach is delivered back, once, same signal
            assert_eq!(INJECTED_N[i], HANDED_N[i], "each intercepted signal is re-injected exactly once");
            let mut k = 0;
            while k < HANDED_N[i] {
                assert_eq!(INJECTED[i][k], HANDED[i][k], "the same signal is re-injected");
                k += 1;
            }
        }
        assert_eq!(DETACH_UNATTACHED, 0, "no detach of a thread that was never attached");
        assert_eq!(SIGCONT_TO_PID, 1, "the process is continued exactly once");
        assert_eq!(OTHER_KILLS, 0);
    }
    kani::cover!(true, "end reached");
    core::mem::forget(errs);
}

const fn sc(attach_ok: bool, waits: [W; 4], regs: R) -> Script {
    Script { attach_ok, waits, regs }
}
use W::*;
const PLAIN: Script = sc(true, [Stop, Stop, Stop, Stop], R::Ok);
const ONE_SIG: Script = sc(true, [Sig, Stop, Stop, Stop], R::Ok);
const TWO_SIGS: Script = sc(true, [Sig, Sig, Stop, Stop], R::Ok);
const EINTR_THEN_STOP: Script = sc(true, [Eintr, Stop, Stop, Stop], R::Ok);
const SIG_EINTR: Script = sc(true, [Sig, Eintr, Stop, Stop], R::Ok);
const ATTACH_FAILS: Script = sc(false, [Stop, Stop, Stop, Stop], R::Ok);
const DIES: Script = sc(true, [Exited, Stop, Stop, Stop], R::Ok);
const SIG_THEN_DIES: Script = sc(true, [Sig, Exited, Stop, Stop], R::Ok);
const WAIT_FAILS: Script = sc(true, [Fail, Stop, Stop, Stop], R::Ok);
const SIG_THEN_WAIT_FAILS: Script = sc(true, [Sig, Fail, Stop, Stop], R::Ok);
const SECCOMP: Script = sc(true, [Stop, Stop, Stop, Stop], R::NullSp);
const SIG_SECCOMP: Script = sc(true, [Sig, Stop, Stop, Stop], R::NullSp);
const REGS_FAIL: Script = sc(true, [Stop, Stop, Stop, Stop], R::Err);

macro_rules! c03 {
    ($name:ident, $nt:expr, $scripts:expr, $resume:expr) => {
        #[kani::proof]
        #[kani::unwind(6)]
        #[kani::stub(nix::sys::ptrace::attach, crate::verif::c03_suspend::stub_attach)]
        #[kani::stub(nix::sys::ptrace::detach, crate::verif::c03_suspend::stub_detach)]
        #[kani::stub(nix::sys::ptrace::cont, crate::verif::c03_suspend::stub_cont)]
        #[kani::stub(nix::sys::wait::waitpid, crate::verif::c03_suspend::stub_waitpid)]
        #[kani::stub(nix::sys::signal::kill, crate::verif::c03_suspend::stub_kill)]
        #[kani::stub(crate::linux::thread_info::x86::ThreadInfoX86::getregs, crate::verif::c03_suspend::stub_getregs)]
        #[kani::stub(std::fmt::format, crate::verif::env::stub_format)]
        fn $name() {
            run::<$nt>($scripts, $resume);
        }
    };
}
c03!(c03_plain_drop, 1, [PLAIN], false);
c03!(c03_plain_resume, 1, [PLAIN], true);
c03!(c03_one_signal, 1, [ONE_SIG], false);
c03!(c03_one_signal_resume, 1, [ONE_SIG], true);
c03!(c03_two_signals_resume, 1, [TWO_SIGS], true);
c03!(c03_eintr, 1, [EINTR_THEN_STOP], false);
c03!(c03_signal_eintr, 1, [SIG_EINTR], true);
c03!(c03_attach_fails, 1, [ATTACH_FAILS], false);
c03!(c03_dies_while_attaching, 1, [DIES], false);
c03!(c03_signal_then_dies, 1, [SIG_THEN_DIES], false);
c03!(c03_wait_fails, 1, [WAIT_FAILS], false);
c03!(c03_signal_then_wait_fails, 1, [SIG_THEN_WAIT_FAILS], false);
c03!(c03_seccomp_thread, 1, [SECCOMP], false);
c03!(c03_signal_seccomp_thread, 1, [SIG_SECCOMP], false);
c03!(c03_regs_fail, 1, [REGS_FAIL], false);
c03!(c03_two_threads_mixed, 2, [ONE_SIG, DIES], true);
c03!(c03_two_threads_skip_first, 2, [SECCOMP, PLAIN], false);
c03!(c03_two_threads_attach_fails_first, 2, [ATTACH_FAILS, PLAIN], true);
c03!(c03_three_threads, 3, [ATTACH_FAILS, TWO_SIGS, PLAIN], true);
