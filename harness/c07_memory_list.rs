//! C07 - the memory list is faithful and complete (application regions + list emission).
//! The instruction-pointer window and stack registration are in c06_stacks.rs (thread list).
//! Enc: sections::app_memory::write, sections::memory_list_stream::write.
use super::{env, util::*};
use crate::{
    linux::{
        app_memory::AppMemory,
        minidump_writer::MinidumpWriter,
        sections::{app_memory, memory_list_stream},
    },
    mem_writer::Buffer,
    minidump_format::*,
};

fn app<const N: usize>(lens: [usize; N], stale: bool) {
    env::copy_reset(env::SERVE_MAX, usize::MAX);
    let mut cfg = MinidumpWriter::new(4242, 4243);
    let mut ptrs = [0usize; N];
    for i in 0..N {
        ptrs[i] = kani::any();
        cfg.app_memory.push(AppMemory { ptr: ptrs[i], length: lens[i] });
    }
    let mut buf = Buffer::with_capacity(256);
    let pre: [u8; 3] = kani::any();
    buf.write_all(&pre);
    let r = app_memory::write(&mut cfg, &mut buf);
    if let Err(e) = r {
        core::mem::forget(e);
        panic!("app_memory::write failed although every read succeeded");
    }
    assert_eq!(unsafe { env::COPY_N }, N, "one read per application region");
    assert_eq!(cfg.memory_blocks.len(), N, "one memory-list region per application region");
    let mut cursor = 3;
    for i in 0..N {
        assert_eq!(unsafe { env::COPY_SRC[i] }, ptrs[i], "read from exactly the requested address");
        assert_eq!(unsafe { env::COPY_LEN[i] }, lens[i], "exactly the requested length");
        assert_eq!(unsafe { env::COPY_PID[i] }, 4243);
        let mb = &cfg.memory_blocks[i];
        assert_eq!(mb.start_of_memory_range, ptrs[i] as u64, "region recorded with the requested address");
        assert_eq!(mb.memory.data_size as usize, lens[i], "region recorded with the requested length");
        assert_eq!(mb.memory.rva as usize, cursor);
        let j: usize = kani::any();
        kani::assume(j < lens[i]);
        assert_eq!(buf[cursor + j], unsafe { env::COPY_DATA[i][j] }, "region bytes equal target memory");
        cursor += lens[i];
    }
    assert_eq!(buf.len(), cursor);
    // list emission
    let r = memory_list_stream::write(&mut cfg, &mut buf);
    let d = match r {
        Ok(d) => d,
        Err(e) => {
            core::mem::forget(e);
            panic!("memory_list_stream::write failed");
        }
    };
    assert_eq!(d.stream_type, MDStreamType::MemoryListStream as u32);
    assert_eq!(d.location.rva as usize, cursor);
    assert_eq!(d.location.data_size as usize, 4 + 16 * N, "size == count + 16 bytes per region");
    assert_eq!(buf.len(), cursor + 4 + 16 * N);
    assert_eq!(rd_u32(&buf, cursor) as usize, N, "count == number of regions");
    for i in 0..N {
        let e = cursor + 4 + 16 * i;
        assert_eq!(rd_u64(&buf, e), ptrs[i] as u64, "list entry i: address");
        assert_eq!(rd_u32(&buf, e + 8) as usize, lens[i], "list entry i: size");
        assert_eq!(rd_u32(&buf, e + 12), cfg.memory_blocks[i].memory.rva, "list entry i: rva of the bytes");
    }
    let _ = stale;
    kani::cover!(N > 0, "at least one region");
    kani::cover!(N == 0 || ptrs[0] > 0xffff_ffff, "64-bit address");
    core::mem::forget(cfg);
}

macro_rules! app_shape {
    ($name:ident, $n:expr, $lens:expr) => {
        #[kani::proof]
        #[kani::unwind(36)]
        #[kani::stub(crate::linux::ptrace_dumper::PtraceDumper::copy_from_process, crate::verif::env::stub_copy_from_process)]
        #[kani::stub(nix::sys::uio::process_vm_readv, crate::verif::env::stub_process_vm_readv_log)]
        #[kani::stub(std::fmt::format, crate::verif::env::stub_format)]
        fn $name() {
            app::<$n>($lens, false);
        }
    };
}
app_shape!(c07_app_none, 0, []);
app_shape!(c07_app_len1, 1, [1]);
app_shape!(c07_app_len7_len9, 2, [7, 9]);
app_shape!(c07_app_len8_len16, 2, [8, 16]);
app_shape!(c07_app_len32, 1, [32]);
app_shape!(c07_app_three, 3, [3, 1, 5]);
app_shape!(c07_app_len16_len4, 2, [16, 4]);

/// A failing read of an application region is a hard error (nothing is fabricated)
#[kani::proof]
#[kani::unwind(36)]
#[kani::stub(crate::linux::ptrace_dumper::PtraceDumper::copy_from_process, crate::verif::env::stub_copy_from_process)]
#[kani::stub(nix::sys::uio::process_vm_readv, crate::verif::env::stub_process_vm_readv_log)]
#[kani::stub(std::fmt::format, crate::verif::env::stub_format)]
fn c07_app_read_fails() {
    env::copy_reset(env::SERVE_MAX, 1);
    let mut cfg = MinidumpWriter::new(4242, 4243);
    cfg.app_memory.push(AppMemory { ptr: kani::any(), length: 4 });
    cfg.app_memory.push(AppMemory { ptr: kani::any(), length: 4 });
    let mut buf = Buffer::with_capacity(64);
    let r = app_memory::write(&mut cfg, &mut buf);
    assert!(r.is_err(), "unreadable application region: error, not fabricated data");
    assert_eq!(cfg.memory_blocks.len(), 1, "only the region that was read is recorded");
    kani::cover!(r.is_err(), "reached");
    core::mem::forget(r);
    core::mem::forget(cfg);
}
