//! C08 - the module list reflects the loaded ELF images.
//! Enc: MappingInfo::{is_interesting, is_contained_in, get_mapping_effective_path_name_and_version},
//! sections::mappings::{write, fill_raw_module}.  Build-id / SONAME extraction is replaced by
//! scripted readers (it is C14's subject); file names are concrete, addresses/ids symbolic.
use super::{c12_sanitize::sym_mapping, util::*};
use crate::{
    errors::ModuleReaderError,
    linux::{
        maps_reader::{MappingEntry, MappingInfo},
        minidump_writer::MinidumpWriter,
        module_reader::{BuildId, ProcessMemory, SoName},
        sections::mappings,
    },
    mem_writer::Buffer,
    minidump_format::*,
};
use procfs_core::process::MMPermissions;

#[kani::proof]
#[kani::unwind(4)]
fn c08_is_interesting() {
    let mut m = sym_mapping(1 << 20);
    m.offset = kani::any();
    let named: bool = kani::any();
    if !named {
        m.name = None;
    }
    let want = named && (m.offset == 0 || m.permissions.contains(MMPermissions::EXECUTE)) && m.size >= 4096;
    assert_eq!(m.is_interesting(), want);
    kani::cover!(want && m.offset != 0, "executable mapping at a non-zero offset is interesting");
    kani::cover!(!want && named, "named but uninteresting");
    core::mem::forget(m);
}

#[kani::proof]
#[kani::unwind(4)]
fn c08_is_contained_in() {
    let m = sym_mapping(64);
    let u0 = sym_mapping(64);
    let u1 = sym_mapping(64);
    let inside = |u: &MappingInfo| m.start_address >= u.start_address && m.start_address + m.size <= u.start_address + u.size;
    let want = inside(&u0) || inside(&u1);
    let list = vec![
        MappingEntry { mapping: u0.clone(), identifier: Vec::new() },
        MappingEntry { mapping: u1.clone(), identifier: Vec::new() },
    ];
    assert_eq!(m.is_contained_in(&list), want, "suppressed iff wholly inside a caller-supplied mapping");
    assert!(!m.is_contained_in(&Vec::new()));
    kani::cover!(want, "contained");
    kani::cover!(!want && m.start_address >= u0.start_address && m.start_address < u0.start_address + u0.size, "overlapping but not contained");
    core::mem::forget(list);
    core::mem::forget((m, u0, u1));
}

/// fill_raw_module: record fields, CV record = "BpEL" + id, name = path with the last component
/// replaced by the SONAME, or appended when an executable mapping has a non-zero offset.
fn raw_module<const IDLEN: usize>(exec_nonzero_offset: bool) {
    let k: usize = kani::any();
    let p: usize = kani::any();
    kani::assume(k >= 16 && k < (1usize << 35) && p >= 1 && p < (1 << 19));
    let perms = if exec_nonzero_offset { MMPermissions::READ | MMPermissions::EXECUTE } else { MMPermissions::READ };
    let mut m = mapping(k << 12, p << 12, perms, Some("/a/b.so.1.2"));
    m.offset = if exec_nonzero_offset { 0x1000 } else { 0 };
    let id: [u8; IDLEN] = kani::any();
    let mut buf = Buffer::with_capacity(200);
    let pre: [u8; 3] = kani::any();
    buf.write_all(&pre);
    let r = mappings::verif_fill_raw_module(&mut buf, &m, &id, Some(String::from("c.so")));
    let md = match r {
        Ok(x) => x,
        Err(e) => {
            core::mem::forget(e);
            panic!("fill_raw_module failed");
        }
    };
    assert_eq!(md.base_of_image, (k << 12) as u64, "base == mapping start");
    assert_eq!(md.size_of_image as usize, p << 12, "size == mapping size");
    // CV record directly after the earlier content
    assert_eq!(md.cv_record.rva, 3);
    assert_eq!(md.cv_record.data_size as usize, 4 + IDLEN);
    assert_eq!(rd_u32(&buf, 3), 0x4270454c, "'BpEL' signature");
    let i: usize = kani::any();
    kani::assume(i < IDLEN);
    assert_eq!(buf[3 + 4 + i], id[i], "identifier bytes follow the signature");
    // name
    let expect: &str = if exec_nonzero_offset { "/a/b.so.1.2/c.so" } else { "/a/c.so" };
    let nrva = md.module_name_rva as usize;
    assert_eq!(nrva, 3 + 4 + IDLEN, "name blob follows the CV record");
    assert_eq!(rd_u32(&buf, nrva) as usize, 2 * expect.len());
    let mut j = 0;
    while j < expect.len() {
        assert_eq!(rd_u16(&buf, nrva + 4 + 2 * j), expect.as_bytes()[j] as u16, "effective module name");
        j += 1;
    }
    assert_eq!(buf.len(), nrva + 4 + 2 * expect.len());
    // version from the mapped file name b.so.1.2
    assert_eq!(md.version_info.file_version_hi, 1);
    assert_eq!(md.version_info.file_version_lo, 2);
    kani::cover!(id[0] != 0, "non-zero id");
    core::mem::forget(m);
}
#[kani::proof]
#[kani::unwind(40)]
#[kani::stub(std::fmt::format, crate::verif::env::stub_format)]
fn c08_raw_module_replace_basename() {
    raw_module::<20>(false);
}
#[kani::proof]
#[kani::unwind(40)]
#[kani::stub(std::fmt::format, crate::verif::env::stub_format)]
fn c08_raw_module_append_soname() {
    raw_module::<8>(true);
}

// ---- scripted readers for mappings::write
pub static mut BID_CALLS: usize = 0;
pub static mut SON_CALLS: usize = 0;
/// per call: 0 = error, 1 = id 8 symbolic bytes (first byte non-zero), 2 = all-zero id
pub static mut BID_SCRIPT: [u8; 4] = [0; 4];
pub static mut BID_DATA: [[u8; 8]; 4] = [[0; 8]; 4];
pub static mut SON_OK: [bool; 4] = [false; 4];
pub static mut OPENED: usize = 0;

pub fn stub_build_id_read(_m: ProcessMemory<'_>) -> Result<BuildId, ModuleReaderError> {
    unsafe {
        let n = BID_CALLS;
        BID_CALLS = n + 1;
        match BID_SCRIPT[n] {
            0 => Err(ModuleReaderError::NoTextSection),
            1 => {
                let mut id: [u8; 8] = kani::any();
                id[0] = 0xab;
                BID_DATA[n] = id;
                Ok(BuildId(id.to_vec()))
            }
            _ => Ok(BuildId(vec![0u8; 8])),
        }
    }
}
pub fn stub_soname_read(_m: ProcessMemory<'_>) -> Result<SoName, ModuleReaderError> {
    unsafe {
        let n = SON_CALLS;
        SON_CALLS = n + 1;
        if SON_OK[n] {
            Ok(SoName(String::from("s.so")))
        } else {
            Err(ModuleReaderError::NoSoNameEntry)
        }
    }
}
pub fn stub_path_exists(_p: &std::path::Path) -> bool {
    true
}
pub fn stub_file_open_forbidden<P: AsRef<std::path::Path>>(p: P) -> std::io::Result<std::fs::File> {
    unsafe { OPENED += 1 };
    let b = p.as_ref().as_os_str().as_encoded_bytes();
    assert!(!(b.len() >= 5 && &b[..5] == b"/dev/"), "a mapped file under /dev is never opened");
    Err(std::io::Error::from(std::io::ErrorKind::NotFound))
}

pub static mut FRM_N: usize = 0;
pub static mut FRM_START: [usize; 4] = [0; 4];
pub static mut FRM_ID: [[u8; 8]; 4] = [[0; 8]; 4];
pub static mut FRM_IDLEN: [usize; 4] = [0; 4];
pub static mut FRM_SONAME: [bool; 4] = [false; 4];
/// Logger in place of the private `fill_raw_module` (its own behaviour: c08_raw_module_*): the
/// path/SONAME/version string handling costs > 15 min per call under CBMC even on concrete names.
pub fn stub_fill_raw_module(
    _buffer: &mut Buffer,
    mapping: &MappingInfo,
    identifier: &[u8],
    soname: Option<String>,
) -> Result<MDRawModule, crate::errors::SectionMappingsError> {
    unsafe {
        let n = FRM_N;
        assert!(n < 4);
        FRM_START[n] = mapping.start_address;
        FRM_IDLEN[n] = identifier.len();
        let mut i = 0;
        while i < 8 && i < identifier.len() {
            FRM_ID[n][i] = identifier[i];
            i += 1;
        }
        FRM_SONAME[n] = soname.is_some();
        core::mem::forget(soname);
        FRM_N = n + 1;
        Ok(MDRawModule {
            base_of_image: mapping.start_address as u64,
            size_of_image: mapping.size as u32,
            // tag the record with its call index so the emitted list can be matched to the calls
            checksum: n as u32,
            ..Default::default()
        })
    }
}

macro_rules! mw {
    ($name:ident, $body:block) => {
        #[kani::proof]
        #[kani::unwind(30)]
        #[kani::stub(<crate::linux::module_reader::BuildId as crate::linux::module_reader::ReadFromModule>::read_from_module, crate::verif::c08_modules::stub_build_id_read)]
        #[kani::stub(<crate::linux::module_reader::SoName as crate::linux::module_reader::ReadFromModule>::read_from_module, crate::verif::c08_modules::stub_soname_read)]
        #[kani::stub(std::path::Path::exists, crate::verif::c08_modules::stub_path_exists)]
        #[kani::stub(std::fs::File::open, crate::verif::c08_modules::stub_file_open_forbidden)]
        #[kani::stub(crate::linux::sections::mappings::fill_raw_module, crate::verif::c08_modules::stub_fill_raw_module)]
        #[kani::stub(std::fmt::format, crate::verif::env::stub_format)]
        #[kani::stub(std::vec::Vec::resize, crate::verif::env::stub_vec_resize)]
        fn $name() $body
    };
}

fn reset_scripts(bid: [u8; 4], son: [bool; 4]) {
    unsafe {
        BID_CALLS = 0;
        SON_CALLS = 0;
        BID_SCRIPT = bid;
        SON_OK = son;
        OPENED = 0;
        FRM_N = 0;
    }
}

// Three target mappings: /a/x.so (id readable, SONAME), [heap]-like unnamed (uninteresting),
// /a/y.so (all-zero id -> not listed); one caller-supplied mapping with its own id.
mw!(c08_write_list, {
    // unused script slots hold benign outcomes (zero id / SONAME present): with symbolic addresses CBMC also
    // explores infeasible "one more read" paths, and an error dropped there costs minutes (drop glue of DumperError)
    reset_scripts([1, 2, 2, 2], [true; 4]);
    let k: usize = kani::any();
    kani::assume(k >= 16 && k < (1usize << 34));
    let m0 = mapping(k << 12, 2 << 12, MMPermissions::READ | MMPermissions::EXECUTE, Some("/a/x.so"));
    let m1 = mapping((k + 2) << 12, 4 << 12, MMPermissions::READ | MMPermissions::WRITE, None);
    let m2 = mapping((k + 8) << 12, 1 << 12, MMPermissions::READ, Some("/a/y.so"));
    let uk: usize = kani::any();
    kani::assume(uk > k + 64 && uk < (1usize << 35));
    let user = mapping(uk << 12, 3 << 12, MMPermissions::READ, Some("/u/z"));
    let uid: [u8; 4] = kani::any();
    let mut d = dumper(Vec::new(), vec![m0, m1, m2], 4096);
    let mut cfg = MinidumpWriter::new(4242, 4243);
    cfg.user_mapping_list.push(MappingEntry { mapping: user, identifier: uid.to_vec() });
    let mut buf = Buffer::with_capacity(480);
    let pre: [u8; 3] = kani::any();
    buf.write_all(&pre);
    let r = mappings::write(&mut cfg, &mut buf, &mut d);
    let dirent = match r {
        Ok(x) => x,
        Err(e) => {
            core::mem::forget(e);
            panic!("mappings::write failed");
        }
    };
    assert_eq!(dirent.stream_type, MDStreamType::ModuleListStream as u32);
    let rva = dirent.location.rva as usize;
    assert_eq!(rva, 3, "nothing but the list is written (module blobs are modelled)");
    assert_eq!(rd_u32(&buf, rva), 2, "two modules: /a/x.so and the caller-supplied one");
    assert_eq!(dirent.location.data_size as usize, 4 + 2 * 108, "size == count + 108 bytes per module");
    assert_eq!(buf.len(), rva + 4 + 2 * 108, "the list is the last thing written");
    unsafe {
        assert_eq!(FRM_N, 2, "one module record per listed mapping");
        // module 0: the target mapping, with the id that was read for it and its SONAME
        assert_eq!(FRM_START[0], k << 12);
        assert_eq!(FRM_IDLEN[0], 8);
        let i: usize = kani::any();
        kani::assume(i < 8);
        assert_eq!(FRM_ID[0][i], BID_DATA[0][i], "module 0 carries the id that was read for it");
        assert!(FRM_SONAME[0], "the SONAME read from the image is passed on");
        // module 1: the caller-supplied mapping, verbatim, after the target's modules
        assert_eq!(FRM_START[1], uk << 12);
        assert_eq!(FRM_IDLEN[1], 4);
        let j: usize = kani::any();
        kani::assume(j < 4);
        assert_eq!(FRM_ID[1][j], uid[j], "user mapping carries the supplied identifier");
        assert!(!FRM_SONAME[1]);
    }
    // the emitted list holds the records in call order
    let e0 = rva + 4;
    assert_eq!(rd_u64(&buf, e0), (k << 12) as u64, "module 0 base");
    assert_eq!(rd_u32(&buf, e0 + 8), 2 << 12, "module 0 size");
    assert_eq!(rd_u32(&buf, e0 + 12), 0, "module 0 is the first record produced");
    let e1 = e0 + 108;
    assert_eq!(rd_u64(&buf, e1), (uk << 12) as u64, "user mapping base");
    assert_eq!(rd_u32(&buf, e1 + 8), 3 << 12);
    assert_eq!(rd_u32(&buf, e1 + 12), 1);
    assert_eq!(unsafe { BID_CALLS }, 2, "ids are read for interesting mappings only");
    assert_eq!(unsafe { OPENED }, 0);
    kani::cover!(uid[0] != 0, "reached");
    core::mem::forget(d);
    core::mem::forget(cfg);
});

// A target mapping wholly inside a caller-supplied one is suppressed
mw!(c08_write_suppressed, {
    reset_scripts([2, 2, 2, 2], [true; 4]);
    let k: usize = kani::any();
    kani::assume(k >= 16 && k < (1usize << 34));
    let m0 = mapping((k + 1) << 12, 2 << 12, MMPermissions::READ | MMPermissions::EXECUTE, Some("/a/x.so"));
    // the caller's mapping ends exactly where the target mapping ends (boundary of the containment test)
    let user = mapping(k << 12, 3 << 12, MMPermissions::READ, Some("/u/z"));
    let mut d = dumper(Vec::new(), vec![m0], 4096);
    let mut cfg = MinidumpWriter::new(4242, 4243);
    cfg.user_mapping_list.push(MappingEntry { mapping: user, identifier: vec![1, 2] });
    let mut buf = Buffer::with_capacity(300);
    let r = mappings::write(&mut cfg, &mut buf, &mut d);
    let dirent = match r {
        Ok(x) => x,
        Err(e) => {
            core::mem::forget(e);
            panic!("mappings::write failed");
        }
    };
    assert_eq!(rd_u32(&buf, dirent.location.rva as usize), 1, "only the caller-supplied mapping is listed");
    assert_eq!(unsafe { BID_CALLS }, 0, "the contained target mapping is not even read");
    assert_eq!(unsafe { FRM_N }, 1);
    assert_eq!(unsafe { FRM_START[0] }, k << 12);
    assert_eq!(rd_u64(&buf, dirent.location.rva as usize + 4), (k << 12) as u64);
    kani::cover!(true, "reached");
    core::mem::forget(d);
    core::mem::forget(cfg);
});

// C02: mapped files under /dev are never opened, whatever the readers say
fn dev_rule(name: &'static str) {
    reset_scripts([0, 0, 0, 0], [false; 4]);
    let k: usize = kani::any();
    kani::assume(k >= 16 && k < (1usize << 34));
    let m0 = mapping(k << 12, 2 << 12, MMPermissions::READ | MMPermissions::EXECUTE, Some(name));
    let mut d = dumper(Vec::new(), vec![m0], 4096);
    let mut cfg = MinidumpWriter::new(4242, 4243);
    let mut buf = Buffer::with_capacity(64);
    let r = mappings::write(&mut cfg, &mut buf, &mut d);
    let dirent = match r {
        Ok(x) => x,
        Err(e) => {
            core::mem::forget(e);
            panic!("mappings::write failed");
        }
    };
    assert_eq!(unsafe { OPENED }, 0, "no file under /dev was opened");
    assert_eq!(rd_u32(&buf, dirent.location.rva as usize), 0, "no id -> not listed");
    kani::cover!(unsafe { BID_CALLS } == 1, "the in-memory read was attempted and failed");
    core::mem::forget(d);
    core::mem::forget(cfg);
}
mw!(c02_dev_shm_never_opened, { dev_rule("/dev/shm/x") });
mw!(c02_dev_zero_never_opened, { dev_rule("/dev/zero (deleted)") });

// ---- one decision of mappings::write per harness (the 3-mapping harness above needs > 25 GB) ----
/// One target mapping at a symbolic address (+ optionally one caller-supplied mapping elsewhere).
/// `bid`: 1 = a build id is read (8 symbolic bytes), 2 = an all-zero id is read; `son`: SONAME readable.
fn write_case(named: bool, bid: u8, with_user: bool, son: bool) {
    reset_scripts([bid, 2, 2, 2], [son; 4]);
    let k: usize = kani::any();
    kani::assume(k >= 16 && k < (1usize << 34));
    let m0 = mapping(k << 12, 2 << 12, MMPermissions::READ | MMPermissions::EXECUTE, if named { Some("/a/x.so") } else { None });
    let mut d = dumper(Vec::new(), vec![m0], 4096);
    let mut cfg = MinidumpWriter::new(4242, 4243);
    let uk: usize = kani::any();
    kani::assume(uk > k + 64 && uk < (1usize << 35));
    let uid: [u8; 4] = kani::any();
    if with_user {
        let user = mapping(uk << 12, 3 << 12, MMPermissions::READ, Some("/u/z"));
        cfg.user_mapping_list.push(MappingEntry { mapping: user, identifier: uid.to_vec() });
    }
    let mut buf = Buffer::with_capacity(300);
    let pre: [u8; 3] = kani::any();
    buf.write_all(&pre);
    let r = mappings::write(&mut cfg, &mut buf, &mut d);
    let dirent = match r {
        Ok(x) => x,
        Err(e) => {
            core::mem::forget(e);
            panic!("mappings::write failed");
        }
    };
    let listed_target = named && bid == 1;
    let n = listed_target as usize + with_user as usize;
    assert_eq!(dirent.stream_type, MDStreamType::ModuleListStream as u32);
    let rva = dirent.location.rva as usize;
    assert_eq!(rva, 3, "nothing but the list is written (module blobs are modelled)");
    assert_eq!(rd_u32(&buf, rva) as usize, n, "count: target mapping iff named with a non-zero id, plus the caller's");
    assert_eq!(dirent.location.data_size as usize, 4 + n * 108, "size == count + 108 bytes per module");
    assert_eq!(buf.len(), rva + 4 + n * 108, "the list is the last thing written");
    unsafe {
        assert_eq!(FRM_N, n, "one module record per listed mapping");
        assert_eq!(BID_CALLS, named as usize, "an id is read for an interesting mapping only, once");
        assert_eq!(OPENED, 0, "no file is opened when the id can be read from memory");
        let mut next = 0;
        if listed_target {
            assert_eq!(FRM_START[0], k << 12);
            assert_eq!(FRM_IDLEN[0], 8);
            let i: usize = kani::any();
            kani::assume(i < 8);
            assert_eq!(FRM_ID[0][i], BID_DATA[0][i], "the record carries the id that was read for this mapping");
            assert_eq!(FRM_SONAME[0], son, "the SONAME read from the image is passed on (none if unreadable)");
            assert_eq!(rd_u64(&buf, rva + 4), (k << 12) as u64, "base of image");
            assert_eq!(rd_u32(&buf, rva + 4 + 8), 2 << 12, "size of image");
            next = 1;
        }
        if with_user {
            // the caller-supplied mapping: verbatim, after the target's modules, id as supplied, no SONAME lookup
            assert_eq!(FRM_START[next], uk << 12);
            assert_eq!(FRM_IDLEN[next], 4);
            let j: usize = kani::any();
            kani::assume(j < 4);
            assert_eq!(FRM_ID[next][j], uid[j], "caller-supplied identifier");
            assert!(!FRM_SONAME[next]);
            let e = rva + 4 + 108 * next;
            assert_eq!(rd_u64(&buf, e), (uk << 12) as u64);
            assert_eq!(rd_u32(&buf, e + 8), 3 << 12);
            assert_eq!(rd_u32(&buf, e + 12), next as u32, "records are emitted in call order");
        }
    }
    kani::cover!(true, "reached");
    core::mem::forget(d);
    core::mem::forget(cfg);
}
mw!(c08_write_unnamed_not_listed, { write_case(false, 2, false, true) });
mw!(c08_write_zero_id_not_listed, { write_case(true, 2, false, true) });
mw!(c08_write_listed_with_soname, { write_case(true, 1, false, true) });
mw!(c08_write_user_only, { write_case(false, 2, true, true) });
mw!(c08_write_target_then_user, { write_case(true, 1, true, true) });
mw!(c08_write_zero_id_and_user, { write_case(true, 2, true, true) });
// an unreadable SONAME is dropped (the error is discarded: this drop costs minutes under CBMC)
mw!(c08_write_listed_no_soname, { write_case(true, 1, false, false) });

// ---- "the module containing the program entry point is first" (PtraceDumper::enumerate_mappings) ----
// Reading /proc/<pid>/maps is I/O (File::open returns a dummy handle, BufRead::read_line reports EOF), the
// aggregation is C13's subject (scripted: three derived mappings at symbolic, ascending, disjoint
// addresses).  The REAL enumerate_mappings decides which mapping goes first.
pub static mut AGG: [(usize, usize); 3] = [(0, 0); 3];
pub fn stub_file_open_dummy<P: AsRef<std::path::Path>>(_p: P) -> std::io::Result<std::fs::File> {
    use std::os::fd::FromRawFd;
    Ok(unsafe { std::fs::File::from_raw_fd(7) })
}
/// `BufRead::read_line` is a trait default method: the /proc/<pid>/maps "file" is empty (EOF at once), so the
/// REAL `MemoryMaps::from_read` returns an empty list without touching the dummy file descriptor.
/// closing the dummy descriptor is a no-op (close(2) is FFI)
pub fn stub_ownedfd_drop(_this: &mut std::os::fd::OwnedFd) {}
pub trait StubReadLine {
    fn stub_read_line(&mut self, _buf: &mut String) -> std::io::Result<usize> {
        Ok(0)
    }
}
impl<T: ?Sized> StubReadLine for T {}
pub fn stub_aggregate(maps: procfs_core::process::MemoryMaps, _gate: Option<crate::linux::auxv::AuxvType>) -> Result<Vec<MappingInfo>, crate::errors::MapsReaderError> {
    core::mem::forget(maps);
    let mut v = Vec::with_capacity(3);
    unsafe {
        v.push(mapping(AGG[0].0, AGG[0].1, MMPermissions::READ | MMPermissions::EXECUTE, Some("/lib/a.so")));
        v.push(mapping(AGG[1].0, AGG[1].1, MMPermissions::READ | MMPermissions::EXECUTE, Some("/bin/x")));
        v.push(mapping(AGG[2].0, AGG[2].1, MMPermissions::READ | MMPermissions::EXECUTE, Some("/lib/b.so")));
    }
    Ok(v)
}
#[kani::proof]
#[kani::unwind(6)]
#[kani::stub(std::fs::File::open, crate::verif::c08_modules::stub_file_open_dummy)]
#[kani::stub(std::io::BufRead::read_line, crate::verif::c08_modules::StubReadLine::stub_read_line)]
#[kani::stub(<std::os::fd::OwnedFd as core::ops::Drop>::drop, crate::verif::c08_modules::stub_ownedfd_drop)]
#[kani::stub(crate::linux::maps_reader::MappingInfo::aggregate, crate::verif::c08_modules::stub_aggregate)]
#[kani::stub(std::fmt::format, crate::verif::env::stub_format)]
fn c08_entry_point_module_first() {
    use crate::linux::auxv::{AuxvDumpInfo, DirectAuxvDumpInfo};
    let mut s = [0usize; 3];
    let mut z = [0usize; 3];
    let mut cur: usize = kani::any();
    kani::assume(cur >= 0x1000 && cur < (1usize << 40));
    for i in 0..3 {
        let gap: usize = kani::any();
        let size: usize = kani::any();
        kani::assume(gap <= 0x10000 && size >= 0x1000 && size <= 0x100000);
        s[i] = cur + gap;
        z[i] = size;
        cur = s[i] + size;
    }
    unsafe { AGG = [(s[0], z[0]), (s[1], z[1]), (s[2], z[2])] };
    let entry: u64 = kani::any();
    let auxv = AuxvDumpInfo::from(DirectAuxvDumpInfo { program_header_count: 0, program_header_address: 0, linux_gate_address: 0, entry_address: entry });
    let mut d = crate::linux::ptrace_dumper::PtraceDumper::verif_new(4242, Vec::new(), Vec::new(), false, 4096, auxv);
    let r = d.verif_enumerate_mappings();
    assert!(r.is_ok());
    assert_eq!(d.mappings.len(), 3);
    // which derived mapping holds the entry point?
    let mut holder = usize::MAX;
    for i in 0..3 {
        if entry != 0 && (entry as usize) >= s[i] && (entry as usize) < s[i] + z[i] {
            holder = i;
        }
    }
    if holder != usize::MAX {
        assert_eq!(d.mappings[0].start_address, s[holder], "the mapping containing the program entry point is first");
    } else {
        assert_eq!(d.mappings[0].start_address, s[0], "no entry point known / outside every mapping: order unchanged");
    }
    // nothing lost, nothing duplicated
    for i in 0..3 {
        let mut cnt = 0;
        for j in 0..3 {
            if d.mappings[j].start_address == s[i] && d.mappings[j].size == z[i] {
                cnt += 1;
            }
        }
        assert_eq!(cnt, 1, "every mapping is still listed exactly once");
    }
    kani::cover!(holder == 0, "the executable is already first");
    kani::cover!(holder == 1, "the executable is second");
    kani::cover!(holder == 2, "the executable is last");
    kani::cover!(holder == usize::MAX, "entry point in no mapping");
    core::mem::forget(d);
}

// ---- C02: SoVersion::parse (version from the mapped file name) never panics ----
// The name is "a.so.1.2.<d><X><e>": d, e symbolic ASCII digits, X one character given as its UTF-8
// bytes (1-, 2- or 3-byte form, content symbolic within the form).
fn so_version_total<const XL: usize>() {
    use std::os::unix::ffi::OsStrExt;
    let d: u8 = kani::any();
    let e: u8 = kani::any();
    kani::assume(d >= b'0' && d <= b'9' && e >= b'0' && e <= b'9');
    let x: [u8; XL] = kani::any();
    match XL {
        1 => kani::assume(x[0] >= b'a' && x[0] <= b'z'),
        2 => kani::assume(x[0] >= 0xC2 && x[0] <= 0xDF && x[1] >= 0x80 && x[1] <= 0xBF),
        _ => kani::assume(x[0] >= 0xE1 && x[0] <= 0xEC && x[1] >= 0x80 && x[1] <= 0xBF && x[2] >= 0x80 && x[2] <= 0xBF),
    }
    let mut name = [0u8; 16];
    let head = b"a.so.1.2.";
    name[..9].copy_from_slice(head);
    name[9] = d;
    for i in 0..XL {
        name[10 + i] = x[i];
    }
    name[10 + XL] = e;
    let n = 11 + XL;
    let r = crate::linux::maps_reader::verif_so_version_parse(std::ffi::OsStr::from_bytes(&name[..n]));
    match r {
        Some((major, minor, patch, pre)) => {
            assert!(major == 1 && minor == 2);
            assert_eq!(patch, (d - b'0') as u32, "leading number of the third component");
            assert_eq!(pre, (e - b'0') as u32, "trailing number of the third component");
        }
        None => panic!("a name with .so.<version> has a version"),
    }
    kani::cover!(true, "reached");
}
#[kani::proof]
#[kani::unwind(20)]
fn c02_so_version_ascii_separator() {
    so_version_total::<1>();
}
#[kani::proof]
#[kani::unwind(20)]
fn c02_so_version_2byte_separator() {
    so_version_total::<2>();
}
#[kani::proof]
#[kani::unwind(20)]
fn c02_so_version_3byte_separator() {
    so_version_total::<3>();
}

fn so_version_concrete(name: &'static str, expect: (u32, u32, u32, u32)) {
    let r = crate::linux::maps_reader::verif_so_version_parse(std::ffi::OsStr::new(name));
    assert!(r == Some(expect), "version components of the mapped file name");
    kani::cover!(true, "reached");
}
#[kani::proof]
#[kani::unwind(24)]
fn c02_so_version_name_nonascii_separator() {
    so_version_concrete("a.so.1.2.3\u{e9}4", (1, 2, 3, 4));
}
#[kani::proof]
#[kani::unwind(24)]
fn c02_so_version_name_fourth_alnum() {
    so_version_concrete("a.so.1.2.3.4rc5", (1, 2, 3, 4));
}
#[kani::proof]
#[kani::unwind(24)]
fn c02_so_version_name_third_alnum() {
    so_version_concrete("a.so.1.2.3rc4", (1, 2, 3, 4));
}

/// No expectation on the value: the call returns (C02: never panics on any mapped-file name).
fn so_version_returns(name: &'static str) {
    let r = crate::linux::maps_reader::verif_so_version_parse(std::ffi::OsStr::new(name));
    kani::cover!(r.is_some(), "a version was derived");
    kani::cover!(r.is_none(), "no version");
    kani::cover!(true, "returned");
}
macro_rules! sov {
    ($name:ident, $s:expr) => {
        #[kani::proof]
        #[kani::unwind(24)]
        fn $name() {
            so_version_returns($s);
        }
    };
}
sov!(c02_so_version_total_space_in_name, "/l b/lib x.so.10.2");
sov!(c02_so_version_total_five_components, "a.so.1.2.3.4.5");
sov!(c02_so_version_total_nonascii_everywhere, "\u{e9}.so.\u{e9}.1\u{e9}.\u{e9}2.3\u{1d11e}");
sov!(c02_so_version_total_fourth_nonascii, "a.so.1.2.3.4\u{e9}5");
sov!(c02_so_version_total_no_version, "/usr/lib/a.so");
sov!(c02_so_version_total_trailing_dot, "a.so.1.");
sov!(c02_so_version_total_huge_number, "a.so.99999999999.2");
/// Digits symbolic (every pair), structure concrete: "a.so.1.2.<d>\u{e9}<e>".
#[kani::proof]
#[kani::unwind(24)]
fn c02_so_version_symbolic_digits() {
    use std::os::unix::ffi::OsStrExt;
    let d: u8 = kani::any();
    let e: u8 = kani::any();
    kani::assume(d >= b'0' && d <= b'9' && e >= b'0' && e <= b'9');
    let name = [b'a', b'.', b's', b'o', b'.', b'1', b'.', b'2', b'.', d, 0xC3, 0xA9, e];
    let r = crate::linux::maps_reader::verif_so_version_parse(std::ffi::OsStr::from_bytes(&name));
    assert!(r == Some((1, 2, (d - b'0') as u32, (e - b'0') as u32)));
    kani::cover!(true, "reached");
}
