//! C11 - best-effort initialisation steps fail softly and are reported (PtraceDumper::init).
//! The four steps themselves are I/O; they are replaced by scripted outcomes, the REAL init
//! decides what becomes a soft error and what aborts.
use super::util::*;
use crate::{
    linux::{
        auxv::{AuxvDumpInfo, AuxvError},
        ptrace_dumper::{InitError, PtraceDumper, StopProcessError},
    },
    Pid,
};
use error_graph::{ErrorList, WriteErrorList};

pub static mut STEP_FAILS: [bool; 4] = [false; 4];
pub static mut STEP_CALLS: [usize; 4] = [0; 4];

pub fn stub_stop_process(_this: &mut PtraceDumper, _timeout: std::time::Duration) -> Result<(), StopProcessError> {
    unsafe {
        STEP_CALLS[0] += 1;
        if STEP_FAILS[0] {
            return Err(StopProcessError::Timeout);
        }
    }
    Ok(())
}
pub fn stub_fill_auxv<W: WriteErrorList<AuxvError>>(_this: &mut AuxvDumpInfo, _pid: Pid, _soft_errors: W) -> Result<(), AuxvError> {
    // the (empty) sub-list is forgotten, not dropped: dropping an empty Vec trips the garbage-capacity artefact (DESIGN 0.5)
    core::mem::forget(_soft_errors);
    unsafe {
        STEP_CALLS[1] += 1;
        if STEP_FAILS[1] {
            return Err(AuxvError::InvalidFormat);
        }
    }
    Ok(())
}
pub fn stub_enumerate_threads<W: WriteErrorList<InitError>>(_this: &mut PtraceDumper, _soft_errors: W) -> Result<(), InitError> {
    core::mem::forget(_soft_errors);
    unsafe {
        STEP_CALLS[2] += 1;
        if STEP_FAILS[2] {
            return Err(InitError::CannotPtraceSameProcess);
        }
    }
    Ok(())
}
pub fn stub_enumerate_mappings(_this: &mut PtraceDumper) -> Result<(), InitError> {
    unsafe {
        STEP_CALLS[3] += 1;
        if STEP_FAILS[3] {
            return Err(InitError::CannotPtraceSameProcess);
        }
    }
    Ok(())
}
pub fn stub_sysconf(_var: nix::unistd::SysconfVar) -> nix::Result<Option<libc::c_long>> {
    Ok(Some(4096))
}

fn run(fails: [bool; 4]) {
    unsafe {
        STEP_FAILS = fails;
        STEP_CALLS = [0; 4];
    }
    let mut d = dumper(Vec::new(), Vec::new(), 0);
    let mut errs: ErrorList<InitError> = ErrorList::default();
    let r = d.init(std::time::Duration::from_millis(1), &mut errs);
    assert!(r.is_ok(), "a failing best-effort step never makes init fail");
    assert_eq!(d.page_size, 4096);
    let mut expect = 0;
    for k in 0..4 {
        assert_eq!(unsafe { STEP_CALLS[k] }, 1, "every step is attempted, whatever failed before it");
        if fails[k] {
            expect += 1;
        }
    }
    assert_eq!(errs.len(), expect, "one soft error per failed step, none otherwise");
    let mut idx = 0;
    let mut k = 0;
    for e in errs.iter() {
        while !fails[k] {
            k += 1;
        }
        let ok = match (k, e) {
            (0, InitError::StopProcessFailed(_)) => true,
            (1, InitError::FillMissingAuxvInfoFailed(_)) => true,
            (2, InitError::EnumerateThreadsFailed(_)) => true,
            (3, InitError::EnumerateMappingsFailed(_)) => true,
            _ => false,
        };
        assert!(ok, "each failure is reported under the step it belongs to, in order");
        k += 1;
        idx += 1;
    }
    kani::cover!(idx == expect, "reached");
    core::mem::forget(errs);
    core::mem::forget(r);
    core::mem::forget(d);
}

macro_rules! init {
    ($name:ident, $f:expr) => {
        #[kani::proof]
        #[kani::unwind(8)]
        #[kani::stub(crate::linux::ptrace_dumper::PtraceDumper::stop_process, crate::verif::c11_init::stub_stop_process)]
        #[kani::stub(crate::linux::auxv::AuxvDumpInfo::try_filling_missing_info, crate::verif::c11_init::stub_fill_auxv)]
        #[kani::stub(crate::linux::ptrace_dumper::PtraceDumper::enumerate_threads, crate::verif::c11_init::stub_enumerate_threads)]
        #[kani::stub(crate::linux::ptrace_dumper::PtraceDumper::enumerate_mappings, crate::verif::c11_init::stub_enumerate_mappings)]
        #[kani::stub(nix::unistd::sysconf, crate::verif::c11_init::stub_sysconf)]
        #[kani::stub(std::fmt::format, crate::verif::env::stub_format)]
        fn $name() {
            run($f);
        }
    };
}
init!(c11_init_none_fail, [false, false, false, false]);
init!(c11_init_stop_fails, [true, false, false, false]);
init!(c11_init_auxv_fails, [false, true, false, false]);
init!(c11_init_threads_fail, [false, false, true, false]);
init!(c11_init_mappings_fail, [false, false, false, true]);
init!(c11_init_all_fail, [true, true, true, true]);
