//! C09 - the destination receives exactly the image that was built.
//! C10 - every prefix of the output is a consistent truncated minidump.
//! Enc: dir_section::DirSection::{new, dump_dir_entry, write_to_file, position} on top of mem_writer.
use super::{dest::ArrDest, util::*};
use crate::{
    dir_section::DirSection,
    mem_writer::{Buffer, MemoryWriter},
    minidump_format::*,
};

pub const N: usize = 160;

#[derive(Clone, Copy)]
pub enum Op {
    /// grow the image by n symbolic bytes (n concrete)
    Grow(usize),
    /// emit a directory entry whose location is the region grown since the last entry
    Dir,
    /// flush without / with a directory entry
    Flush,
    FlushDir,
}

fn sym_dirent(rva: u32, size: u32) -> MDRawDirectory {
    let t: u32 = kani::any();
    kani::assume(t != 0);
    MDRawDirectory { stream_type: t, location: MDLocationDescriptor { data_size: size, rva } }
}

/// After every operation: destination[start .. start+flushed) == image[..flushed), every other
/// destination byte is as it was, the cursor is at start+flushed.
fn run_c09<const K: usize>(ops: [Op; K], nslots: u32) {
    let init: [u8; N] = kani::any();
    let start: u64 = kani::any();
    kani::assume(start <= 8);
    let mut dest = ArrDest::<N>::new(init, start);
    let mut buf = Buffer::with_capacity(N);
    let mut hdr = MemoryWriter::<MDRawHeader>::alloc(&mut buf).unwrap();
    let w: usize = kani::any(); // witness index into the destination
    kani::assume(w < N);
    let mut ds = match DirSection::new(&mut buf, nslots, &mut dest) {
        Ok(d) => d,
        Err(e) => {
            core::mem::forget(e);
            panic!("DirSection::new failed");
        }
    };
    let header = MDRawHeader {
        signature: MD_HEADER_SIGNATURE,
        version: MD_HEADER_VERSION,
        stream_count: nslots,
        stream_directory_rva: ds.position(),
        checksum: 0,
        time_date_stamp: kani::any(),
        flags: 0,
    };
    hdr.set_value(&mut buf, header).unwrap();
    assert_eq!(ds.position(), 32, "directory follows the header");
    let mut stream_start = buf.len();
    let mut k = 0;
    while k < K {
        let r = match ops[k] {
            Op::Grow(n) => {
                let bytes: [u8; 16] = kani::any();
                buf.write_all(&bytes[..n]);
                Ok(())
            }
            Op::Dir => {
                let d = sym_dirent(stream_start as u32, (buf.len() - stream_start) as u32);
                stream_start = buf.len();
                ds.dump_dir_entry(&mut buf, d)
            }
            Op::Flush => ds.write_to_file(&mut buf, None),
            Op::FlushDir => {
                let d = sym_dirent(stream_start as u32, (buf.len() - stream_start) as u32);
                stream_start = buf.len();
                ds.write_to_file(&mut buf, Some(d))
            }
        };
        if let Err(e) = r {
            core::mem::forget(e);
            panic!("destination never fails in this harness");
        }
        // ---- oracle after each operation
        let flushed = ds.verif_last_position() as usize;
        let s = start as usize;
        assert!(flushed <= buf.len());
        let dref = ds.verif_dest();
        assert_eq!(dref.pos, start + flushed as u64, "cursor sits at the end of what was flushed");
        if w < s || w >= s + flushed {
            assert_eq!(dref.data[w], init[w], "bytes outside [start, start+flushed) are untouched");
        } else {
            assert_eq!(dref.data[w], buf[w - s], "destination equals the image up to the last flush");
        }
        k += 1;
    }
    let flushed = ds.verif_last_position() as usize;
    kani::cover!(flushed == buf.len() && flushed >= 32 + 12 * nslots as usize, "everything flushed");
    kani::cover!(w >= start as usize + 32 && w < start as usize + 32 + 12 * nslots as usize && flushed > 0,
                 "witness inside the directory");
    core::mem::forget(ds);
}

macro_rules! c09 {
    ($name:ident, $slots:expr, [$($op:expr),*]) => {
        #[kani::proof]
        #[kani::unwind(18)]
        fn $name() {
            use Op::*;
            run_c09([$($op),*], $slots);
        }
    };
}
// the sequence generate_dump uses: header flush, then (grow, flush+entry)*
c09!(c09_flush_grow_flushdir_x2, 2, [Flush, Grow(8), FlushDir, Grow(12), FlushDir]);
c09!(c09_grow_before_first_flush, 2, [Grow(4), Flush, Grow(8), FlushDir, Flush]);
c09!(c09_dir_then_flush, 2, [Flush, Grow(8), Dir, Flush, Grow(4), Dir, Flush]);
c09!(c09_flushdir_first, 1, [Grow(12), FlushDir, Grow(4), Flush]);
c09!(c09_empty_flushes, 2, [Flush, Flush, FlushDir, Grow(8), Flush, FlushDir]);
c09!(c09_dir_unflushed_stream, 2, [Flush, Grow(8), Dir, Grow(4), FlushDir]);
c09!(c09_three_streams, 3, [Flush, Grow(4), FlushDir, Grow(8), FlushDir, Grow(12), FlushDir]);
c09!(c09_entry_only, 1, [Flush, Dir]);

/// C10: the destination stops accepting operations at a symbolic point (`crash_at`); what it
/// holds must be a consistent truncated minidump: once the first flush is through, header and
/// whole directory are present, and every directory slot *in the destination* is all-zero or
/// names a region that has completely arrived.
fn run_c10<const K: usize>(ops: [Op; K], nslots: u32, fault: Option<usize>) {
    run_c10_at(ops, nslots, fault, false)
}

/// `appending`: the destination cursor starts at a symbolic offset 0..8 (the dump is appended to existing
/// content); all positions in the oracle are relative to that offset.
fn run_c10_at<const K: usize>(ops: [Op; K], nslots: u32, fault: Option<usize>, appending: bool) {
    let init = [0u8; N]; // a fresh file (or zero bytes before the dump)
    let start: usize = if appending { kani::any() } else { 0 };
    kani::assume(start <= 8);
    let mut dest = ArrDest::<N>::new(init, start as u64);
    let at: usize;
    if let Some(k) = fault {
        // an error changes control flow (and builds an io::Error): its position is a shape
        at = k;
        dest.fail_at = at;
    } else {
        at = kani::any();
        dest.crash_at = at;
    }
    let mut buf = Buffer::with_capacity(N);
    let mut hdr = MemoryWriter::<MDRawHeader>::alloc(&mut buf).unwrap();
    let mut ds = match DirSection::new(&mut buf, nslots, &mut dest) {
        Ok(d) => d,
        Err(e) => {
            core::mem::forget(e);
            return;
        }
    };
    let header = MDRawHeader {
        signature: MD_HEADER_SIGNATURE,
        version: MD_HEADER_VERSION,
        stream_count: nslots,
        stream_directory_rva: ds.position(),
        checksum: 0,
        time_date_stamp: kani::any(),
        flags: 0,
    };
    hdr.set_value(&mut buf, header).unwrap();
    let mut stream_start = buf.len();
    let mut k = 0;
    let mut failed = false;
    while k < K && !failed {
        let r = match ops[k] {
            Op::Grow(n) => {
                let bytes: [u8; 16] = kani::any();
                buf.write_all(&bytes[..n]);
                Ok(())
            }
            Op::Dir => {
                let d = sym_dirent(stream_start as u32, (buf.len() - stream_start) as u32);
                stream_start = buf.len();
                ds.dump_dir_entry(&mut buf, d)
            }
            Op::Flush => ds.write_to_file(&mut buf, None),
            Op::FlushDir => {
                let d = sym_dirent(stream_start as u32, (buf.len() - stream_start) as u32);
                stream_start = buf.len();
                ds.write_to_file(&mut buf, Some(d))
            }
        };
        if let Err(e) = r {
            // a hard error aborts the dump: nothing more is written
            core::mem::forget(e);
            failed = true;
        }
        k += 1;
    }
    let dref = ds.verif_dest();
    let dir_end = 32 + 12 * nslots as usize;
    // bytes received contiguously from the start offset (appends are the only writes past the directory)
    let received = if dref.high_water > start { dref.high_water - start } else { 0 };
    if received >= dir_end {
        assert_eq!(rd_u32(&dref.data, start), MD_HEADER_SIGNATURE, "header present");
        assert_eq!(rd_u32(&dref.data, start + 8), nslots, "stream count present");
        assert_eq!(rd_u32(&dref.data, start + 12), 32, "directory rva present");
        let slot: usize = kani::any();
        kani::assume(slot < nslots as usize);
        let e = start + 32 + 12 * slot;
        let ty = rd_u32(&dref.data, e);
        let size = rd_u32(&dref.data, e + 4) as usize;
        let rva = rd_u32(&dref.data, e + 8) as usize;
        if ty != 0 || size != 0 || rva != 0 {
            assert!(rva + size <= received, "a directory entry in the destination refers only to bytes already there");
            if size > 0 {
                // ... and they ARE the stream's bytes (the image is append-only, so image[rva..] is final)
                let i: usize = kani::any();
                kani::assume(i < size);
                assert_eq!(dref.data[start + rva + i], buf[rva + i], "the bytes an entry refers to are the stream's bytes");
            }
        }
        kani::cover!(fault.is_some() || (ty != 0 && size > 0), "a non-empty entry reached the destination");
        kani::cover!(fault.is_some() || (ty == 0 && received > dir_end), "an unused entry while stream bytes are present");
    }
    kani::cover!(fault.is_some() || (at < dref.ops && received >= dir_end), "cut after the first flush");
    kani::cover!(fault.is_some() || at >= dref.ops, "no cut: dump completed");
    kani::cover!(fault.is_none() || failed || at >= dref.ops, "fault shape: the error surfaced (or lies beyond the dump)");
    core::mem::forget(ds);
}

macro_rules! c10 {
    ($name:ident, $slots:expr, $fault:expr, [$($op:expr),*]) => {
        #[kani::proof]
        #[kani::unwind(18)]
        fn $name() {
            use Op::*;
            run_c10([$($op),*], $slots, $fault);
        }
    };
}
macro_rules! c10at {
    ($name:ident, $slots:expr, [$($op:expr),*]) => {
        #[kani::proof]
        #[kani::unwind(18)]
        fn $name() {
            use Op::*;
            run_c10_at([$($op),*], $slots, None, true);
        }
    };
}
c10at!(c10_crash_two_streams_appending, 2, [Flush, Grow(8), FlushDir, Grow(12), FlushDir]);
c10at!(c10_crash_aux_flush_appending, 2, [Flush, Grow(8), FlushDir, Grow(4), Flush, Grow(8), FlushDir]);
c10!(c10_crash_two_streams, 2, None, [Flush, Grow(8), FlushDir, Grow(12), FlushDir]);
c10!(c10_crash_three_streams, 3, None, [Flush, Grow(4), FlushDir, Grow(8), FlushDir, Grow(12), FlushDir]);
c10!(c10_crash_aux_flush, 2, None, [Flush, Grow(8), FlushDir, Grow(4), Flush, Grow(8), FlushDir]);
c10!(c10_crash_empty_stream, 2, None, [Flush, FlushDir, Grow(8), FlushDir]);
// I/O error at destination call #k of the 2-stream dump (9 calls: write; (write, seek, write, seek) x2)
c10!(c10_fault_at0, 2, Some(0), [Flush, Grow(8), FlushDir, Grow(12), FlushDir]);
c10!(c10_fault_at1, 2, Some(1), [Flush, Grow(8), FlushDir, Grow(12), FlushDir]);
c10!(c10_fault_at2, 2, Some(2), [Flush, Grow(8), FlushDir, Grow(12), FlushDir]);
c10!(c10_fault_at3, 2, Some(3), [Flush, Grow(8), FlushDir, Grow(12), FlushDir]);
c10!(c10_fault_at4, 2, Some(4), [Flush, Grow(8), FlushDir, Grow(12), FlushDir]);
c10!(c10_fault_at5, 2, Some(5), [Flush, Grow(8), FlushDir, Grow(12), FlushDir]);
c10!(c10_fault_at6, 2, Some(6), [Flush, Grow(8), FlushDir, Grow(12), FlushDir]);
c10!(c10_fault_at7, 2, Some(7), [Flush, Grow(8), FlushDir, Grow(12), FlushDir]);
c10!(c10_fault_at8, 2, Some(8), [Flush, Grow(8), FlushDir, Grow(12), FlushDir]);
