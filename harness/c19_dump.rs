//! The dump() skeleton: the REAL MinidumpWriter::dump / generate_dump / DirSection / mem_writer /
//! app_memory / memory_list_stream / exception_stream, with the dumper constructor, the
//! suspend/resume calls and every /proc- or ptrace-fed section writer replaced by modelled
//! writers (DESIGN.md 2.3).  Decides: C01(b) directory accounting, C03/C04 capture window and
//! resume, C09 destination == image, C11 best-effort failures, C19 writer reuse, C20 soft error.
use super::{dest::ArrDest, env, util::*};
use crate::{
    errors::*,
    linux::{
        app_memory::AppMemory,
        auxv::AuxvDumpInfo,
        maps_reader::MappingInfo,
        minidump_writer::{CrashingThreadContext, MinidumpWriter},
        ptrace_dumper::{InitError, PtraceDumper, Thread},
    },
    mem_writer::{Buffer, MemoryArrayWriter, MemoryWriterError},
    minidump_format::*,
    Pid,
};
use error_graph::{ErrorList, WriteErrorList};
use procfs_core::process::MMPermissions;

pub const NSLOTS: usize = 18;
pub const BODY: usize = 4;

pub static mut STOPPED: bool = false;
pub static mut SUSPENDS: usize = 0;
pub static mut RESUMES: usize = 0;
pub static mut SIGCONTS: usize = 0;
pub static mut READ_WHILE_RUNNING: usize = 0;
/// best-effort steps that fail (concrete per harness): indices below
pub static mut FAIL: [bool; 12] = [false; 12];
pub const F_CPUINFO: usize = 0;
pub const F_STATUS: usize = 1;
pub const F_LSB: usize = 2;
pub const F_OSREL: usize = 3;
pub const F_CMDLINE: usize = 4;
pub const F_ENVIRON: usize = 5;
pub const F_AUXV: usize = 6;
pub const F_MAPS: usize = 7;
pub const F_LIMITS: usize = 8;
pub const F_DSO: usize = 9;
pub const F_HANDLES: usize = 10;
pub const F_INIT: usize = 11;
pub static mut FILE_CALLS: usize = 0;
/// order in which the modelled writers ran (one tag per call)
pub static mut SEQ: [u8; 32] = [0; 32];
pub static mut SEQ_N: usize = 0;
pub static mut SOFT_N: usize = usize::MAX;
pub static mut SOFT_TAGS: [u8; 16] = [0; 16];
pub static mut SOFT_WRITTEN_AFTER_RESUME: bool = false;

fn seq(tag: u8) {
    unsafe {
        SEQ[SEQ_N] = tag;
        SEQ_N += 1;
    }
}
fn reads_target() {
    unsafe {
        if !STOPPED {
            READ_WHILE_RUNNING += 1;
        }
    }
}
fn body(buffer: &mut Buffer, ty: MDStreamType) -> MDRawDirectory {
    let b: [u8; BODY] = kani::any();
    let w = MemoryArrayWriter::<u8>::write_bytes(buffer, &b);
    MDRawDirectory { stream_type: ty as u32, location: w.location() }
}
fn mem_err() -> MemoryWriterError {
    MemoryWriterError::TryFromIntError(u8::try_from(300u32).unwrap_err())
}

pub fn stub_new_dumper<W: WriteErrorList<InitError>>(
    pid: Pid,
    _t: std::time::Duration,
    auxv: AuxvDumpInfo,
    mut soft_errors: W,
) -> Result<PtraceDumper, InitError> {
    seq(1);
    if unsafe { FAIL[F_INIT] } {
        // e.g. stopping the process failed: reported, not fatal
        soft_errors.push(InitError::CannotPtraceSameProcess);
        drop(soft_errors);
    } else {
        // An EMPTY error sub-list is forgotten instead of dropped: dropping it is a no-op in reality,
        // but in this harness CBMC reports spurious `free` failures for the empty Vec inside it
        // (tool artefact, see DESIGN.md 0.5; the same drop passes in isolation: selftest_sublist_*).
        core::mem::forget(soft_errors);
    }
    let m = mapping(0x7000_0000, 0x4000, MMPermissions::READ | MMPermissions::EXECUTE, Some("/bin/t"));
    Ok(PtraceDumper::verif_new(pid, vec![Thread { tid: 4243, name: None }], vec![m], false, 4096, auxv))
}
pub fn stub_suspend<W: WriteErrorList<DumperError>>(_this: &mut PtraceDumper, _soft_errors: W) {
    core::mem::forget(_soft_errors);
    seq(2);
    unsafe {
        STOPPED = true;
        SUSPENDS += 1;
    }
}
pub fn stub_resume<W: WriteErrorList<DumperError>>(_this: &mut PtraceDumper, _soft_errors: W) {
    core::mem::forget(_soft_errors);
    unsafe {
        if STOPPED {
            seq(30);
            RESUMES += 1;
        }
        STOPPED = false;
    }
}
pub fn stub_kill<T: Into<Option<nix::sys::signal::Signal>>>(_pid: nix::unistd::Pid, _signal: T) -> nix::Result<()> {
    unsafe { SIGCONTS += 1 };
    Ok(())
}
pub fn stub_thread_list(_c: &mut MinidumpWriter, buffer: &mut Buffer, _d: &PtraceDumper) -> Result<MDRawDirectory, SectionThreadListError> {
    seq(3);
    reads_target();
    Ok(body(buffer, MDStreamType::ThreadListStream))
}
pub fn stub_mappings(_c: &mut MinidumpWriter, buffer: &mut Buffer, _d: &mut PtraceDumper) -> Result<MDRawDirectory, SectionMappingsError> {
    seq(4);
    reads_target();
    Ok(body(buffer, MDStreamType::ModuleListStream))
}
pub fn stub_systeminfo<W: WriteErrorList<SectionSystemInfoError>>(buffer: &mut Buffer, _soft_errors: W) -> Result<MDRawDirectory, SectionSystemInfoError> {
    core::mem::forget(_soft_errors);
    seq(7);
    Ok(body(buffer, MDStreamType::SystemInfoStream))
}
pub fn stub_meminfo(_c: &mut MinidumpWriter, buffer: &mut Buffer) -> Result<MDRawDirectory, SectionMemInfoListError> {
    seq(8);
    Ok(body(buffer, MDStreamType::MemoryInfoListStream))
}
pub fn stub_write_file(_this: &MinidumpWriter, buffer: &mut Buffer, _filename: &str) -> Result<MDLocationDescriptor, MemoryWriterError> {
    // call order in generate_dump: cpuinfo, status, lsb-release, [os-release], cmdline, environ, auxv, maps, limits
    let which = unsafe {
        let n = FILE_CALLS;
        FILE_CALLS = n + 1;
        let lsb_failed = FAIL[F_LSB];
        match n {
            0 => F_CPUINFO,
            1 => F_STATUS,
            2 => F_LSB,
            3 if lsb_failed => F_OSREL,
            _ => {
                let k = if lsb_failed { n - 1 } else { n };
                match k {
                    3 => F_CMDLINE,
                    4 => F_ENVIRON,
                    5 => F_AUXV,
                    6 => F_MAPS,
                    _ => F_LIMITS,
                }
            }
        }
    };
    seq(10 + which as u8);
    if unsafe { FAIL[which] } {
        return Err(mem_err());
    }
    let b: [u8; BODY] = kani::any();
    Ok(MemoryArrayWriter::<u8>::write_bytes(buffer, &b).location())
}
pub fn stub_dso_debug(buffer: &mut Buffer, _pid: i32, _auxv: &AuxvDumpInfo) -> Result<MDRawDirectory, SectionDsoDebugError> {
    seq(22);
    reads_target();
    if unsafe { FAIL[F_DSO] } {
        return Err(SectionDsoDebugError::CouldNotFind("x"));
    }
    Ok(body(buffer, MDStreamType::LinuxDsoDebug))
}
pub fn stub_thread_names(buffer: &mut Buffer, _d: &PtraceDumper) -> Result<MDRawDirectory, SectionThreadNamesError> {
    seq(24);
    Ok(body(buffer, MDStreamType::ThreadNamesStream))
}
pub fn stub_handles(_c: &mut MinidumpWriter, buffer: &mut Buffer) -> Result<MDRawDirectory, SectionHandleDataStreamError> {
    seq(25);
    if unsafe { FAIL[F_HANDLES] } {
        return Err(SectionHandleDataStreamError::MemoryWriterError(mem_err()));
    }
    Ok(body(buffer, MDStreamType::HandleDataStream))
}
pub fn stub_soft_errors(buffer: &mut Buffer, soft_errors: ErrorList<WriterError>) -> Result<MDLocationDescriptor, WriterError> {
    seq(31);
    unsafe {
        SOFT_WRITTEN_AFTER_RESUME = !STOPPED;
        SOFT_N = soft_errors.len();
        let mut k = 0;
        for e in soft_errors.iter() {
            SOFT_TAGS[k] = match e {
                WriterError::InitErrors(_) => 1,
                WriterError::SuspendThreadsErrors(_) => 2,
                WriterError::ResumeThreadsErrors(_) => 3,
                WriterError::PrincipalMappingNotReferenced => 4,
                WriterError::WriteSystemInfoErrors(_) => 5,
                WriterError::WriteCpuInfoFailed(_) => 10,
                WriterError::WriteThreadProcStatusFailed(_) => 11,
                WriterError::WriteOsReleaseInfoFailed(_) => 12,
                WriterError::WriteCommandLineFailed(_) => 14,
                WriterError::WriteEnvironmentFailed(_) => 15,
                WriterError::WriteAuxvFailed(_) => 16,
                WriterError::WriteMapsFailed(_) => 17,
                WriterError::WriteLimitsFailed(_) => 18,
                WriterError::WriteDSODebugStreamFailed(_) => 19,
                WriterError::WriteHandleDataStreamFailed(_) => 20,
                WriterError::SuspendNoThreadsLeft(_) => 21,
                _ => 99,
            };
            k += 1;
        }
    }
    core::mem::forget(soft_errors);
    let b: [u8; 2] = [b'[', b']'];
    Ok(MemoryArrayWriter::<u8>::write_bytes(buffer, &b).location())
}
pub fn stub_now() -> std::time::SystemTime {
    std::time::UNIX_EPOCH + std::time::Duration::from_secs(1_790_000_000)
}

fn reset(fail: [bool; 12]) {
    unsafe {
        STOPPED = false;
        SUSPENDS = 0;
        RESUMES = 0;
        SIGCONTS = 0;
        READ_WHILE_RUNNING = 0;
        FAIL = fail;
        FILE_CALLS = 0;
        SEQ_N = 0;
        SOFT_N = usize::MAX;
        SOFT_WRITTEN_AFTER_RESUME = false;
    }
    env::copy_reset(8, usize::MAX);
}

// expected stream types per slot (MS-defined values and the Breakpad/Mozilla extensions)
const TYPES: [u32; NSLOTS] = [
    3, 4, 5, 6, 7, 16, 0x4767_0003, 0x4767_0004, 0x4767_0005, 0x4767_0006, 0x4767_0007, 0x4767_0008, 0x4767_0009, 0x4767_000A,
    0x4d7a_0003, 24, 12, 0x4d7a_0004,
];
/// which best-effort failure empties which slot
fn slot_failed(fail: &[bool; 12], slot: usize) -> bool {
    match slot {
        6 => fail[F_CPUINFO],
        7 => fail[F_STATUS],
        8 => fail[F_LSB] && fail[F_OSREL],
        9 => fail[F_CMDLINE],
        10 => fail[F_ENVIRON],
        11 => fail[F_AUXV],
        12 => fail[F_MAPS],
        13 => fail[F_DSO],
        14 => fail[F_LIMITS],
        16 => fail[F_HANDLES],
        _ => false,
    }
}

pub const DEST: usize = 640;

/// `stale`: the writer was "used before" - arbitrary left-over state in its public fields.
fn run(fail: [bool; 12], stale: bool, app_regions: usize, skip_unreferenced: bool) {
    reset(fail);
    let mut cfg = MinidumpWriter::new(4242, 4243);
    if app_regions == 1 {
        cfg.app_memory.push(AppMemory { ptr: kani::any(), length: 8 });
    }
    if stale {
        cfg.memory_blocks.push(MDMemoryDescriptor {
            start_of_memory_range: kani::any(),
            memory: MDLocationDescriptor { data_size: kani::any(), rva: kani::any() },
        });
        cfg.crashing_thread_context = CrashingThreadContext::CrashContext(MDLocationDescriptor { data_size: kani::any(), rva: kani::any() });
        // a principal mapping resolved by an earlier dump (e.g. against another target)
        cfg.principal_mapping = Some(mapping(0x1000_0000, 0x2000, MMPermissions::READ | MMPermissions::EXECUTE, Some("/old")));
    }
    if skip_unreferenced {
        cfg.skip_stacks_if_mapping_unreferenced = true;
        // an address in no mapping of this target (its only mapping is [0x7000_0000, 0x7000_4000))
        let a: usize = kani::any();
        kani::assume(a < 0x7000_0000 || a >= 0x7000_4000);
        cfg.principal_mapping_address = Some(a);
    }
    let init: [u8; DEST] = kani::any();
    // the destination offset is concrete here (memcpy destination); symbolic offsets are C09's harnesses
    let start: u64 = 3;
    let mut dest = ArrDest::<DEST>::new(init, start);
    dest.memcpy = true;
    let res = cfg.dump(&mut dest);
    let img = match res {
        Ok(v) => v,
        Err(e) => {
            core::mem::forget(e);
            panic!("dump failed although only best-effort steps failed");
        }
    };
    // ---- C03 / C04: capture window and resume
    unsafe {
        assert_eq!(SUSPENDS, 1);
        assert_eq!(RESUMES, 1, "threads are resumed exactly once");
        assert!(!STOPPED, "nothing is left stopped when dump returns");
        assert_eq!(SIGCONTS, 1, "the process is continued (dumper dropped)");
        assert_eq!(READ_WHILE_RUNNING, 0, "every writer that reads target memory ran while the target was stopped");
        assert!(SOFT_WRITTEN_AFTER_RESUME, "only the soft-error stream is produced after the resume");
        assert_eq!(env::COPY_N, app_regions, "application memory read");
    }
    // ---- C01(b): header and directory accounting
    let n = img.len();
    assert!(n >= 32 + 12 * NSLOTS);
    assert_eq!(rd_u32(&img, 0), 0x504d_444d, "signature 'MDMP'");
    assert_eq!(rd_u32(&img, 4) & 0xffff, 0xa793, "version");
    assert_eq!(rd_u32(&img, 8) as usize, NSLOTS, "declared stream count");
    assert_eq!(rd_u32(&img, 12), 32, "directory follows the header");
    let mut nfailed = 0;
    let mut end_prev = 32 + 12 * NSLOTS;
    for s in 0..NSLOTS {
        let e = 32 + 12 * s;
        let (ty, size, rva) = (rd_u32(&img, e), rd_u32(&img, e + 4) as usize, rd_u32(&img, e + 8) as usize);
        if slot_failed(&fail, s) {
            assert!(ty == 0 && size == 0 && rva == 0, "a failed best-effort stream leaves an all-zero entry");
            nfailed += 1;
        } else {
            assert_eq!(ty, TYPES[s], "slot s holds the s-th stream of the fixed sequence (so every type occurs once)");
            assert!(rva + size <= n, "stream lies inside the image");
            // streams are laid out in slot order, so pairwise non-overlap reduces to this chain
            assert!(rva >= end_prev, "streams do not overlap each other, the header or the directory");
            end_prev = rva + size;
        }
    }
    // ---- C11: soft errors
    unsafe {
        assert!(SOFT_N != usize::MAX, "the soft-error stream is always written");
        let mut expect = nfailed;
        if fail[F_LSB] && !fail[F_OSREL] {
            // lsb-release failed but os-release succeeded: not an error
        }
        if fail[F_INIT] {
            expect += 1;
        }
        if skip_unreferenced {
            expect += 1; // no crash context: the crashing thread cannot reference the mapping
        }
        assert_eq!(SOFT_N, expect, "one soft error per failed best-effort step, none otherwise");
        let mut k = 0;
        let mut idx = 0;
        if fail[F_INIT] {
            assert_eq!(SOFT_TAGS[idx], 1, "init failure reported under InitErrors");
            idx += 1;
        }
        if skip_unreferenced {
            assert_eq!(SOFT_TAGS[idx], 4, "PrincipalMappingNotReferenced reported");
            idx += 1;
        }
        let order = [(6usize, 10u8), (7, 11), (8, 12), (9, 14), (10, 15), (11, 16), (12, 17), (13, 19), (14, 18), (16, 20)];
        while k < order.len() {
            if slot_failed(&fail, order[k].0) {
                assert_eq!(SOFT_TAGS[idx], order[k].1, "each failure is listed under the step it belongs to");
                idx += 1;
            }
            k += 1;
        }
    }
    // ---- C19: nothing recorded earlier leaks into this dump
    let ml = 32 + 12 * 2;
    let ml_rva = rd_u32(&img, ml + 8) as usize;
    assert_eq!(rd_u32(&img, ml_rva) as usize, app_regions, "memory list holds exactly the regions registered during this dump");
    assert_eq!(rd_u32(&img, ml + 4) as usize, 4 + 16 * app_regions);
    let ex = 32 + 12 * 3;
    let ex_rva = rd_u32(&img, ex + 8) as usize;
    assert_eq!(rd_u32(&img, ex + 4), 168);
    assert_eq!(rd_u32(&img, ex_rva), 4243, "exception names the blamed thread");
    assert!(rd_u32(&img, ex_rva + 160) == 0 && rd_u32(&img, ex_rva + 164) == 0,
            "the (modelled) thread list recorded no crashing-thread context in this dump: the exception context is empty");
    if skip_unreferenced {
        assert!(cfg.principal_mapping.is_none(), "the principal mapping is resolved anew for every dump: an address in no mapping resolves to none");
    }
    // ---- C09: the destination holds exactly the returned image
    let w: usize = kani::any();
    kani::assume(w < DEST);
    let s0 = start as usize;
    if w < s0 || w >= s0 + n {
        assert_eq!(dest.data[w], init[w], "bytes outside the image are untouched");
    } else {
        assert_eq!(dest.data[w], img[w - s0], "destination == returned image");
    }
    assert_eq!(dest.pos as usize, s0 + n);
    kani::cover!(nfailed > 0 || !fail.iter().any(|f| *f), "reached the end");
    kani::cover!(w >= s0 + 32 && w < s0 + 32 + 12 * NSLOTS, "witness inside the directory");
    core::mem::forget(cfg);
}

macro_rules! dump {
    ($name:ident, $fail:expr, $stale:expr, $app:expr, $skip:expr) => {
        #[kani::proof]
        #[kani::unwind(20)]
        #[kani::stub(crate::linux::ptrace_dumper::PtraceDumper::new_report_soft_errors, crate::verif::c19_dump::stub_new_dumper)]
        #[kani::stub(crate::linux::ptrace_dumper::PtraceDumper::suspend_threads, crate::verif::c19_dump::stub_suspend)]
        #[kani::stub(crate::linux::ptrace_dumper::PtraceDumper::resume_threads, crate::verif::c19_dump::stub_resume)]
        #[kani::stub(nix::sys::signal::kill, crate::verif::c19_dump::stub_kill)]
        #[kani::stub(crate::linux::sections::thread_list_stream::write, crate::verif::c19_dump::stub_thread_list)]
        #[kani::stub(crate::linux::sections::mappings::write, crate::verif::c19_dump::stub_mappings)]
        #[kani::stub(crate::linux::sections::systeminfo_stream::write, crate::verif::c19_dump::stub_systeminfo)]
        #[kani::stub(crate::linux::sections::memory_info_list_stream::write, crate::verif::c19_dump::stub_meminfo)]
        #[kani::stub(crate::linux::sections::thread_names_stream::write, crate::verif::c19_dump::stub_thread_names)]
        #[kani::stub(crate::linux::sections::handle_data_stream::write, crate::verif::c19_dump::stub_handles)]
        #[kani::stub(crate::linux::dso_debug::write_dso_debug_stream, crate::verif::c19_dump::stub_dso_debug)]
        #[kani::stub(crate::linux::minidump_writer::MinidumpWriter::write_file, crate::verif::c19_dump::stub_write_file)]
        #[kani::stub(crate::linux::minidump_writer::write_soft_errors, crate::verif::c19_dump::stub_soft_errors)]
        #[kani::stub(crate::linux::ptrace_dumper::PtraceDumper::copy_from_process, crate::verif::env::stub_copy_from_process)]
        #[kani::stub(std::time::SystemTime::now, crate::verif::c19_dump::stub_now)]
        #[kani::stub(std::fmt::format, crate::verif::env::stub_format)]
        #[kani::stub(std::vec::Vec::resize, crate::verif::env::stub_vec_resize)]
        #[kani::stub(crate::mem_writer::Buffer::with_capacity, crate::verif::env::stub_buffer_with_capacity)]
        fn $name() {
            run($fail, $stale, $app, $skip);
        }
    };
}
/// C10 through the real 18-stream sequence: the destination dies at a symbolic call; whatever
/// arrived must be a consistent truncated minidump (catches a generate_dump that emits an entry
/// before flushing its stream, which the DirSection-only harnesses cannot see).
fn run_crash(app_regions: usize) {
    reset([false; 12]);
    let mut cfg = MinidumpWriter::new(4242, 4243);
    if app_regions == 1 {
        cfg.app_memory.push(AppMemory { ptr: kani::any(), length: 8 });
    }
    let init = [0u8; DEST];
    let mut dest = ArrDest::<DEST>::new(init, 0);
    dest.memcpy = true;
    let at: usize = kani::any();
    dest.crash_at = at;
    let res = cfg.dump(&mut dest);
    if res.is_err() {
        core::mem::forget(res);
        panic!("dump failed although the destination never reported an error");
    }
    let received = dest.high_water;
    let dir_end = 32 + 12 * NSLOTS;
    if received >= dir_end {
        assert_eq!(rd_u32(&dest.data, 0), 0x504d_444d, "header present");
        assert_eq!(rd_u32(&dest.data, 8) as usize, NSLOTS);
        let slot: usize = kani::any();
        kani::assume(slot < NSLOTS);
        let e = 32 + 12 * slot;
        let (ty, size, rva) = (rd_u32(&dest.data, e), rd_u32(&dest.data, e + 4) as usize, rd_u32(&dest.data, e + 8) as usize);
        if ty != 0 || size != 0 || rva != 0 {
            assert!(rva + size <= received, "a directory entry in the destination refers only to bytes already there");
        }
        kani::cover!(ty != 0 && at < dest.ops, "an entry arrived before the cut");
        kani::cover!(ty == 0 && received > dir_end && at < dest.ops, "an unused entry while stream bytes are present");
    }
    kani::cover!(at >= dest.ops, "no cut");
    core::mem::forget(res);
    core::mem::forget(cfg);
}
const NONE: [bool; 12] = [false; 12];
const fn one(k: usize) -> [bool; 12] {
    let mut f = [false; 12];
    f[k] = true;
    f
}
const fn two(a: usize, b: usize) -> [bool; 12] {
    let mut f = [false; 12];
    f[a] = true;
    f[b] = true;
    f
}
const ALL: [bool; 12] = [true; 12];
macro_rules! dump_crash {
    ($name:ident, $app:expr) => {
        #[kani::proof]
        #[kani::unwind(20)]
        #[kani::stub(crate::linux::ptrace_dumper::PtraceDumper::new_report_soft_errors, crate::verif::c19_dump::stub_new_dumper)]
        #[kani::stub(crate::linux::ptrace_dumper::PtraceDumper::suspend_threads, crate::verif::c19_dump::stub_suspend)]
        #[kani::stub(crate::linux::ptrace_dumper::PtraceDumper::resume_threads, crate::verif::c19_dump::stub_resume)]
        #[kani::stub(nix::sys::signal::kill, crate::verif::c19_dump::stub_kill)]
        #[kani::stub(crate::linux::sections::thread_list_stream::write, crate::verif::c19_dump::stub_thread_list)]
        #[kani::stub(crate::linux::sections::mappings::write, crate::verif::c19_dump::stub_mappings)]
        #[kani::stub(crate::linux::sections::systeminfo_stream::write, crate::verif::c19_dump::stub_systeminfo)]
        #[kani::stub(crate::linux::sections::memory_info_list_stream::write, crate::verif::c19_dump::stub_meminfo)]
        #[kani::stub(crate::linux::sections::thread_names_stream::write, crate::verif::c19_dump::stub_thread_names)]
        #[kani::stub(crate::linux::sections::handle_data_stream::write, crate::verif::c19_dump::stub_handles)]
        #[kani::stub(crate::linux::dso_debug::write_dso_debug_stream, crate::verif::c19_dump::stub_dso_debug)]
        #[kani::stub(crate::linux::minidump_writer::MinidumpWriter::write_file, crate::verif::c19_dump::stub_write_file)]
        #[kani::stub(crate::linux::minidump_writer::write_soft_errors, crate::verif::c19_dump::stub_soft_errors)]
        #[kani::stub(crate::linux::ptrace_dumper::PtraceDumper::copy_from_process, crate::verif::env::stub_copy_from_process)]
        #[kani::stub(std::time::SystemTime::now, crate::verif::c19_dump::stub_now)]
        #[kani::stub(std::fmt::format, crate::verif::env::stub_format)]
        #[kani::stub(std::vec::Vec::resize, crate::verif::env::stub_vec_resize)]
        #[kani::stub(crate::mem_writer::Buffer::with_capacity, crate::verif::env::stub_buffer_with_capacity)]
        fn $name() {
            run_crash($app);
        }
    };
}
dump_crash!(c10_dump_crash_anywhere, 1);
dump!(c19_dump_fresh, NONE, false, 1, false);
dump!(c19_dump_reused_writer, NONE, true, 1, false);
dump!(c19_dump_reused_no_app, NONE, true, 0, false);
dump!(c11_dump_all_best_effort_fail, ALL, false, 0, false);
dump!(c11_dump_cpuinfo_fails, one(F_CPUINFO), false, 0, false);
dump!(c11_dump_lsb_falls_back, one(F_LSB), false, 0, false);
dump!(c11_dump_lsb_and_os_release_fail, two(F_LSB, F_OSREL), false, 0, false);
dump!(c11_dump_dso_fails, one(F_DSO), false, 0, false);
dump!(c11_dump_handles_fail, one(F_HANDLES), false, 0, false);
dump!(c11_dump_init_error, one(F_INIT), false, 0, false);
dump!(c11_dump_maps_limits_fail, two(F_MAPS, F_LIMITS), false, 0, false);
dump!(c20_dump_principal_not_referenced, NONE, false, 0, true);
dump!(c19_dump_reused_principal_mapping, NONE, true, 0, true);


// =====================================================================================
// Ghost skeleton (quick tier): as above, but DirSection::{write_to_file, dump_dir_entry} are
// replaced by loggers, so no image or destination byte is ever read back (reading a ~600-byte
// image costs > 30 min / 16 GB, see DESIGN.md 0.2).  What is decided here is generate_dump's own
// logic: which entry is emitted when, with which type/location, while the target is stopped or
// not, and what becomes a soft error.  That DirSection turns these calls into the right
// destination bytes is C09/C10's DirSection harnesses.
pub const LOGN: usize = 24;
pub static mut WTF_N: usize = 0;
pub static mut WTF_HAS: [bool; LOGN] = [false; LOGN];
pub static mut WTF_TY: [u32; LOGN] = [0; LOGN];
pub static mut WTF_SIZE: [u32; LOGN] = [0; LOGN];
pub static mut WTF_RVA: [u32; LOGN] = [0; LOGN];
pub static mut WTF_POS: [u64; LOGN] = [0; LOGN];
pub static mut WTF_STOPPED: [bool; LOGN] = [false; LOGN];
pub static mut DIRECT_ENTRY_CALLS: usize = 0;

pub fn stub_write_to_file<'a, W: std::io::Write + std::io::Seek>(
    _this: &mut crate::dir_section::DirSection<'a, W>,
    buffer: &mut Buffer,
    dirent: Option<MDRawDirectory>,
) -> Result<(), crate::dir_section::FileWriterError>
where
    'a: 'a,
{
    unsafe {
        let n = WTF_N;
        assert!(n < LOGN);
        WTF_POS[n] = buffer.position();
        WTF_STOPPED[n] = STOPPED;
        match dirent {
            Some(d) => {
                WTF_HAS[n] = true;
                WTF_TY[n] = d.stream_type;
                WTF_SIZE[n] = d.location.data_size;
                WTF_RVA[n] = d.location.rva;
            }
            None => WTF_HAS[n] = false,
        }
        WTF_N = n + 1;
    }
    Ok(())
}
/// generate_dump must never emit an entry without flushing the stream it refers to
pub fn stub_dump_dir_entry<'a, W: std::io::Write + std::io::Seek>(
    _this: &mut crate::dir_section::DirSection<'a, W>,
    _buffer: &mut Buffer,
    _dirent: MDRawDirectory,
) -> Result<(), crate::dir_section::FileWriterError>
where
    'a: 'a,
{
    unsafe { DIRECT_ENTRY_CALLS += 1 };
    Ok(())
}

fn run_ghost(fail: [bool; 12], stale: bool, app_regions: usize, skip_unreferenced: bool) {
    reset(fail);
    unsafe {
        WTF_N = 0;
        DIRECT_ENTRY_CALLS = 0;
    }
    let mut cfg = MinidumpWriter::new(4242, 4243);
    if app_regions == 1 {
        cfg.app_memory.push(AppMemory { ptr: kani::any(), length: 8 });
    }
    if stale {
        cfg.memory_blocks.push(MDMemoryDescriptor {
            start_of_memory_range: kani::any(),
            memory: MDLocationDescriptor { data_size: kani::any(), rva: kani::any() },
        });
        cfg.crashing_thread_context = CrashingThreadContext::CrashContext(MDLocationDescriptor { data_size: kani::any(), rva: kani::any() });
        cfg.principal_mapping = Some(mapping(0x1000_0000, 0x2000, MMPermissions::READ | MMPermissions::EXECUTE, Some("/old")));
    }
    if skip_unreferenced {
        cfg.skip_stacks_if_mapping_unreferenced = true;
        let a: usize = kani::any();
        kani::assume(a < 0x7000_0000 || a >= 0x7000_4000);
        cfg.principal_mapping_address = Some(a);
    }
    let mut dest = ArrDest::<8>::new([0u8; 8], 0);
    let res = cfg.dump(&mut dest);
    let img_len = match res {
        Ok(v) => {
            let n = v.len();
            core::mem::forget(v);
            n
        }
        Err(e) => {
            core::mem::forget(e);
            panic!("dump failed although only best-effort steps failed");
        }
    };
    // ---- C03 / C04: capture window and resume
    unsafe {
        assert_eq!(SUSPENDS, 1);
        assert_eq!(RESUMES, 1, "threads are resumed exactly once");
        assert!(!STOPPED, "nothing is left stopped when dump returns");
        assert_eq!(SIGCONTS, 1, "the process is continued (dumper dropped)");
        assert_eq!(READ_WHILE_RUNNING, 0, "every writer that reads target memory ran while the target was stopped");
        assert!(SOFT_WRITTEN_AFTER_RESUME, "only the soft-error stream is produced after the resume");
        assert_eq!(env::COPY_N, app_regions, "application memory read");
        assert_eq!(DIRECT_ENTRY_CALLS, 0, "every directory entry is emitted together with a flush of its stream (never entry-only)");
    }
    // ---- C01(b): one flush for header + directory, one entry-less flush for application memory,
    // 18 flushes with an entry, in the fixed order
    unsafe {
        assert_eq!(WTF_N, 2 + NSLOTS, "20 flushes: header, 18 streams, application memory");
        assert!(!WTF_HAS[0], "first flush: header and empty directory, no entry");
        assert_eq!(WTF_POS[0] as usize, 32 + 12 * NSLOTS, "header (32) + 18 directory slots flushed first");
        assert!(!WTF_HAS[3], "application memory is flushed without an entry");
        let mut slot = 0;
        let mut nfailed = 0;
        let mut end_prev = 32 + 12 * NSLOTS;
        let mut k = 1;
        while k < 2 + NSLOTS {
            if k != 3 {
                assert!(WTF_HAS[k]);
                let (ty, size, rva) = (WTF_TY[k], WTF_SIZE[k] as usize, WTF_RVA[k] as usize);
                if slot_failed(&fail, slot) {
                    assert!(ty == 0 && size == 0 && rva == 0, "a failed best-effort stream gets an all-zero entry");
                    nfailed += 1;
                } else {
                    assert_eq!(ty, TYPES[slot], "slot s holds the s-th stream of the fixed sequence (every type occurs once)");
                    assert!(rva >= end_prev, "streams do not overlap each other, the header or the directory");
                    assert!(rva + size <= WTF_POS[k] as usize, "the stream lies wholly inside what is flushed with its entry");
                    end_prev = rva + size;
                }
                // everything but the soft-error stream is emitted while the target is stopped
                assert_eq!(WTF_STOPPED[k], slot != NSLOTS - 1, "resume happens right before the soft-error stream, not earlier");
                slot += 1;
            }
            k += 1;
        }
        assert_eq!(slot, NSLOTS);
        assert_eq!(WTF_POS[1 + NSLOTS] as usize, img_len, "the last flush covers the whole returned image");
        // ---- C11: soft errors
        assert!(SOFT_N != usize::MAX, "the soft-error stream is always written");
        let mut expect = nfailed;
        if fail[F_INIT] {
            expect += 1;
        }
        if skip_unreferenced {
            expect += 1;
        }
        assert_eq!(SOFT_N, expect, "one soft error per failed best-effort step, none otherwise");
        let mut idx = 0;
        if fail[F_INIT] {
            assert_eq!(SOFT_TAGS[idx], 1, "init failure reported under InitErrors");
            idx += 1;
        }
        if skip_unreferenced {
            assert_eq!(SOFT_TAGS[idx], 4, "PrincipalMappingNotReferenced reported");
            idx += 1;
        }
        let order = [(6usize, 10u8), (7, 11), (8, 12), (9, 14), (10, 15), (11, 16), (12, 17), (13, 19), (14, 18), (16, 20)];
        let mut j = 0;
        while j < order.len() {
            if slot_failed(&fail, order[j].0) {
                assert_eq!(SOFT_TAGS[idx], order[j].1, "each failure is listed under the step it belongs to");
                idx += 1;
            }
            j += 1;
        }
        // ---- C19: the memory list of THIS dump (entry #2 -> flush index 4) holds this dump's regions only
        assert_eq!(WTF_TY[4], 5);
        assert_eq!(WTF_SIZE[4] as usize, 4 + 16 * app_regions, "memory list holds exactly the regions registered during this dump");
        assert_eq!(WTF_SIZE[5], 168, "exception stream");
    }
    assert_eq!(cfg.memory_blocks.len(), app_regions, "no region of an earlier dump is kept");
    assert!(matches!(cfg.crashing_thread_context, CrashingThreadContext::None),
            "the (modelled) thread list recorded no crashing-thread context in this dump, so none is used");
    if skip_unreferenced {
        assert!(cfg.principal_mapping.is_none(), "the principal mapping is resolved anew for every dump");
    }
    kani::cover!(true, "reached the end");
    core::mem::forget(cfg);
}

macro_rules! ghost {
    ($name:ident, $fail:expr, $stale:expr, $app:expr, $skip:expr) => {
        #[kani::proof]
        #[kani::unwind(24)]
        #[kani::stub(crate::dir_section::DirSection::write_to_file, crate::verif::c19_dump::stub_write_to_file)]
        #[kani::stub(crate::dir_section::DirSection::dump_dir_entry, crate::verif::c19_dump::stub_dump_dir_entry)]
        #[kani::stub(crate::linux::ptrace_dumper::PtraceDumper::new_report_soft_errors, crate::verif::c19_dump::stub_new_dumper)]
        #[kani::stub(crate::linux::ptrace_dumper::PtraceDumper::suspend_threads, crate::verif::c19_dump::stub_suspend)]
        #[kani::stub(crate::linux::ptrace_dumper::PtraceDumper::resume_threads, crate::verif::c19_dump::stub_resume)]
        #[kani::stub(nix::sys::signal::kill, crate::verif::c19_dump::stub_kill)]
        #[kani::stub(crate::linux::sections::thread_list_stream::write, crate::verif::c19_dump::stub_thread_list)]
        #[kani::stub(crate::linux::sections::mappings::write, crate::verif::c19_dump::stub_mappings)]
        #[kani::stub(crate::linux::sections::systeminfo_stream::write, crate::verif::c19_dump::stub_systeminfo)]
        #[kani::stub(crate::linux::sections::memory_info_list_stream::write, crate::verif::c19_dump::stub_meminfo)]
        #[kani::stub(crate::linux::sections::thread_names_stream::write, crate::verif::c19_dump::stub_thread_names)]
        #[kani::stub(crate::linux::sections::handle_data_stream::write, crate::verif::c19_dump::stub_handles)]
        #[kani::stub(crate::linux::dso_debug::write_dso_debug_stream, crate::verif::c19_dump::stub_dso_debug)]
        #[kani::stub(crate::linux::minidump_writer::MinidumpWriter::write_file, crate::verif::c19_dump::stub_write_file)]
        #[kani::stub(crate::linux::minidump_writer::write_soft_errors, crate::verif::c19_dump::stub_soft_errors)]
        #[kani::stub(crate::linux::ptrace_dumper::PtraceDumper::copy_from_process, crate::verif::env::stub_copy_from_process)]
        #[kani::stub(std::time::SystemTime::now, crate::verif::c19_dump::stub_now)]
        #[kani::stub(std::fmt::format, crate::verif::env::stub_format)]
        #[kani::stub(std::vec::Vec::resize, crate::verif::env::stub_vec_resize)]
        #[kani::stub(crate::mem_writer::Buffer::with_capacity, crate::verif::env::stub_buffer_with_capacity)]
        fn $name() {
            run_ghost($fail, $stale, $app, $skip);
        }
    };
}
ghost!(g_dump_fresh, NONE, false, 1, false);
ghost!(g_dump_reused_writer, NONE, true, 1, false);
ghost!(g_dump_reused_principal_mapping, NONE, true, 0, true);
ghost!(g_dump_all_best_effort_fail, ALL, false, 0, false);
ghost!(g_dump_cpuinfo_fails, one(F_CPUINFO), false, 0, false);
ghost!(g_dump_lsb_falls_back, one(F_LSB), false, 0, false);
ghost!(g_dump_lsb_and_os_release_fail, two(F_LSB, F_OSREL), false, 0, false);
ghost!(g_dump_dso_fails, one(F_DSO), false, 0, false);
ghost!(g_dump_handles_fail, one(F_HANDLES), false, 0, false);
ghost!(g_dump_init_error, one(F_INIT), false, 0, false);
ghost!(g_dump_maps_limits_fail, two(F_MAPS, F_LIMITS), false, 0, false);
ghost!(g_dump_status_cmdline_fail, two(F_STATUS, F_CMDLINE), false, 0, false);
ghost!(g_dump_environ_auxv_fail, two(F_ENVIRON, F_AUXV), false, 0, false);
ghost!(g_dump_principal_not_referenced, NONE, false, 0, true);

// ---- tool self-tests: empty Vec / ErrorList sublists must drop cleanly
#[kani::proof]
#[kani::unwind(4)]
fn selftest_empty_vec_drop() {
    let v: Vec<DumperError> = Vec::new();
    drop(v);
    kani::cover!(true, "reached");
}
#[kani::proof]
#[kani::unwind(4)]
fn selftest_sublist_drop() {
    let mut parent: ErrorList<WriterError> = ErrorList::default();
    {
        let sub = parent.subwriter(WriterError::SuspendThreadsErrors);
        drop(sub);
    }
    assert_eq!(parent.len(), 0);
    kani::cover!(true, "reached");
    core::mem::forget(parent);
}
fn takes_sub<W: WriteErrorList<DumperError>>(_w: W) {}
#[kani::proof]
#[kani::unwind(4)]
#[kani::stub(std::fmt::format, crate::verif::env::stub_format)]
fn selftest_sublist_passed_by_value() {
    let mut parent: ErrorList<WriterError> = ErrorList::default();
    takes_sub(parent.subwriter(WriterError::SuspendThreadsErrors));
    assert_eq!(parent.len(), 0);
    kani::cover!(true, "reached");
    core::mem::forget(parent);
}
