//! C14 (layer A) - ELF identification: the crate's own arithmetic and lookups on directly
//! constructed goblin structures and symbolic memory; plus the repo's concrete TINY_ELF.
//! Enc: ProcessMemory::{read (Slice), absolute}, section_header_with_name, read_name_from_strtab,
//! build_id_from_bytes, is_executable_section, find_build_id_note; BuildId/SoName on TINY_ELF.
use super::util::*;
use crate::linux::module_reader::*;
use goblin::{
    container::{Container, Ctx, Endian},
    elf,
};

const MEM: usize = 48;

#[kani::proof]
#[kani::unwind(3)]
#[kani::stub(std::fmt::format, crate::verif::env::stub_format)]
fn c14_slice_read() {
    let bytes: [u8; MEM] = kani::any();
    let mut pm = ProcessMemory::Slice(&bytes);
    let off: u64 = kani::any();
    let len: u64 = kani::any();
    let r = pm.verif_read(off, len);
    let fits = match off.checked_add(len) {
        Some(end) => end <= MEM as u64,
        None => false,
    };
    match &r {
        Ok(b) => {
            assert!(fits, "only in-bounds ranges are returned");
            assert_eq!(b.len() as u64, len);
            if len > 0 {
                let i: usize = kani::any();
                kani::assume((i as u64) < len);
                assert_eq!(b[i], bytes[off as usize + i], "the bytes at [offset, offset+length)");
            }
        }
        Err(_) => assert!(!fits, "every in-bounds range is readable"),
    }
    assert_eq!(pm.verif_absolute(off), off, "slice addresses are already relative");
    kani::cover!(r.is_ok() && len > 0 && off > 0, "non-trivial in-bounds read");
    kani::cover!(off.checked_add(len).is_none(), "offset + length overflows");
    core::mem::forget(r);
}

fn sym_sh(name_max: usize) -> elf::SectionHeader {
    let sh_name: usize = kani::any();
    // sh_name is a u32 in the file; goblin widens it to usize
    kani::assume(sh_name <= u32::MAX as usize && (name_max == 0 || sh_name <= name_max));
    elf::SectionHeader {
        sh_name,
        sh_type: kani::any(),
        sh_flags: kani::any(),
        sh_addr: kani::any(),
        sh_offset: kani::any(),
        sh_size: kani::any(),
        sh_link: kani::any(),
        sh_info: kani::any(),
        sh_addralign: kani::any(),
        sh_entsize: kani::any(),
    }
}

/// `name` (NUL-terminated, LEN bytes) looked up among 2 headers; header 0 is also the string table.
fn shwn<const LEN: usize>(name: &[u8; LEN]) {
    let bytes: [u8; MEM] = kani::any();
    let mut pm = ProcessMemory::Slice(&bytes);
    let hs: elf::SectionHeaders = vec![sym_sh(0), sym_sh(0)];
    let idx: usize = kani::any();
    let r = verif_section_header_with_name(&hs, idx, name, &mut pm);
    let strtab_ok = idx < 2 && hs[if idx < 2 { idx } else { 0 }].sh_type == elf::section_header::SHT_STRTAB;
    // reference: does header k's name equal `name`?  (name bytes wholly inside the table and the image)
    let st = &hs[if idx < 2 { idx } else { 0 }];
    let matches = |k: usize| -> bool {
        let n = hs[k].sh_name as u64;
        match n.checked_add(LEN as u64) {
            Some(e) if e <= st.sh_size => match st.sh_offset.checked_add(n) {
                Some(a) => match a.checked_add(LEN as u64) {
                    Some(ae) if ae <= MEM as u64 => {
                        let mut eq = true;
                        let mut i = 0;
                        while i < LEN {
                            if bytes[a as usize + i] != name[i] {
                                eq = false;
                            }
                            i += 1;
                        }
                        eq
                    }
                    _ => false,
                },
                None => false,
            },
            _ => false,
        }
    };
    match &r {
        Ok(Some(h)) => {
            assert!(strtab_ok);
            let k = if core::ptr::eq(*h, &hs[0]) { 0 } else { 1 };
            assert!(matches(k), "a returned header's name equals the query");
            if k == 1 {
                assert!(!matches(0), "the first matching header is returned");
            }
        }
        Ok(None) => {
            assert!(strtab_ok);
            assert!(!matches(0) && !matches(1), "a header whose name equals the query is found");
        }
        Err(_) => {}
    }
    if !strtab_ok {
        assert!(r.is_err(), "no string table -> error");
    }
    kani::cover!(matches!(r, Ok(Some(_))), "a header was found");
    kani::cover!(matches!(r, Ok(None)), "no header found");
    kani::cover!(r.is_err() && strtab_ok, "read error while a string table exists");
    core::mem::forget(r);
    core::mem::forget(hs);
}

#[kani::proof]
#[kani::unwind(12)]
#[kani::stub(std::fmt::format, crate::verif::env::stub_format)]
fn c14_section_header_with_name_dynstr() {
    shwn::<8>(b".dynstr\0");
}
#[kani::proof]
#[kani::unwind(12)]
#[kani::stub(std::fmt::format, crate::verif::env::stub_format)]
fn c14_section_header_with_name_short() {
    shwn::<3>(b".t\0");
}

/// Offsets fully symbolic, restricted to requests that cannot be served from the 6-byte image
/// (start beyond the image, or the addition overflows): an error, never a panic.  (With an
/// in-bounds start the C-string and lossy-UTF-8 conversions over symbolic bytes do not finish:
/// measured > 1200 s for a 6-byte image; that path is covered with concrete offsets below.)
#[kani::proof]
#[kani::unwind(10)]
#[kani::stub(std::fmt::format, crate::verif::env::stub_format)]
fn c14_read_name_from_strtab_out_of_range() {
    let bytes: [u8; 6] = kani::any();
    let pm = ProcessMemory::Slice(&bytes);
    let header: elf::Header = unsafe { core::mem::zeroed() };
    let mut rd = ModuleReader::verif_from_parts(pm, header, Ctx::new(Container::Big, Endian::Little));
    let so: u64 = kani::any();
    let ss: u64 = kani::any();
    let no: u64 = kani::any();
    kani::assume(no < ss); // asserted by the function, guaranteed by both callers
    kani::assume(so.checked_add(no).map_or(true, |a| a >= 6));
    let r = rd.verif_read_name_from_strtab(so, ss, no);
    assert!(r.is_err(), "nothing can be read from outside the image");
    kani::cover!(so.checked_add(no).is_none(), "offset arithmetic would overflow");
    kani::cover!(so.checked_add(no).is_some(), "plain out of range");
    core::mem::forget(r);
    core::mem::forget(rd);
}
/// Concrete offsets (table at 1, 5 bytes, name at +1), symbolic bytes: the name is the bytes up to the first NUL.
#[kani::proof]
#[kani::unwind(10)]
#[kani::stub(std::fmt::format, crate::verif::env::stub_format)]
fn c14_read_name_from_strtab_in_range() {
    let bytes: [u8; 6] = kani::any();
    kani::assume(bytes[2] < 0x80 && bytes[3] < 0x80 && bytes[4] < 0x80 && bytes[5] < 0x80);
    let pm = ProcessMemory::Slice(&bytes);
    let header: elf::Header = unsafe { core::mem::zeroed() };
    let mut rd = ModuleReader::verif_from_parts(pm, header, Ctx::new(Container::Big, Endian::Little));
    let r = rd.verif_read_name_from_strtab(1, 5, 1);
    let has_nul = bytes[2] == 0 || bytes[3] == 0 || bytes[4] == 0 || bytes[5] == 0;
    match &r {
        Ok(s) => {
            assert!(has_nul);
            let n = s.len();
            assert!(2 + n < 6 && bytes[2 + n] == 0, "terminated by the first NUL");
            let i: usize = kani::any();
            kani::assume(i < n);
            assert!(bytes[2 + i] != 0 && s.as_bytes()[i] == bytes[2 + i], "the bytes before it, unchanged");
        }
        Err(_) => assert!(!has_nul, "a terminated name is always returned"),
    }
    kani::cover!(matches!(&r, Ok(s) if s.len() == 2), "a 2-byte name");
    kani::cover!(r.is_err(), "no terminator");
    core::mem::forget(r);
    core::mem::forget(rd);
}

fn bid<const LEN: usize>() {
    let data: [u8; LEN] = kani::any();
    let out = verif_build_id_from_bytes(&data);
    assert_eq!(out.len(), 16, "always 16 bytes");
    let i: usize = kani::any();
    kani::assume(i < 16);
    let mut x = 0u8;
    let mut j = i;
    while j < LEN {
        x ^= data[j];
        j += 16;
    }
    assert_eq!(out[i], x, "byte i is the XOR of data[j], j = i mod 16");
    kani::cover!(LEN == 0 || out[i] != 0, "non-zero fold");
}
macro_rules! bid_shape {
    ($name:ident, $len:expr) => {
        #[kani::proof]
        #[kani::unwind(20)]
        fn $name() {
            bid::<$len>();
        }
    };
}
bid_shape!(c14_build_id_fold_len0, 0);
bid_shape!(c14_build_id_fold_len1, 1);
bid_shape!(c14_build_id_fold_len16, 16);
bid_shape!(c14_build_id_fold_len17, 17);
bid_shape!(c14_build_id_fold_len40, 40);

#[kani::proof]
#[kani::unwind(3)]
fn c14_is_executable_section() {
    let h = sym_sh(0);
    let want = h.sh_type == 1 /* SHT_PROGBITS */ && (h.sh_flags & 0x2) != 0 /* ALLOC */ && (h.sh_flags & 0x4) != 0 /* EXECINSTR */;
    assert_eq!(verif_is_executable_section(&h), want);
    kani::cover!(want, "an executable section");
}

include!("c14_tiny_elf_data.rs");

/// The repo's own 1 KiB test image (fully concrete): strategy order and values, compared with
/// constants computed by the independent reader in /verif/lib/elfmini.py at overlay-build time.
#[kani::proof]
#[kani::unwind(40)]
#[kani::stub(std::fmt::format, crate::verif::env::stub_format)]
fn c14_tiny_elf_build_id() {
    let r = BuildId::read_from_module(ProcessMemory::Slice(TINY_ELF));
    match &r {
        Ok(BuildId(v)) => {
            assert_eq!(v.len(), TINY_ELF_NOTE_ID.len());
            let mut i = 0;
            while i < TINY_ELF_NOTE_ID.len() {
                assert_eq!(v[i], TINY_ELF_NOTE_ID[i], "build id == GNU build-id note found by the independent reader");
                i += 1;
            }
        }
        Err(_) => panic!("no build id for the well-formed test image"),
    }
    kani::cover!(r.is_ok(), "reached");
    core::mem::forget(r);
}
#[kani::proof]
#[kani::unwind(40)]
#[kani::stub(std::fmt::format, crate::verif::env::stub_format)]
fn c14_tiny_elf_soname() {
    let r = SoName::read_from_module(ProcessMemory::Slice(TINY_ELF));
    match &r {
        Ok(SoName(s)) => assert!(s.as_bytes() == TINY_ELF_SONAME, "SONAME == DT_SONAME string found by the independent reader"),
        Err(_) => panic!("no SONAME for the well-formed test image"),
    }
    kani::cover!(r.is_ok(), "reached");
    core::mem::forget(r);
}

// ---- SONAME through the program headers: where is the dynamic string table looked up? ----
// DT_STRTAB holds a VIRTUAL ADDRESS.  In target memory it is read at that address (relative to the
// module's load address); in the FILE it has to be translated to a file offset through the PT_LOAD
// segment that contains it ("reading the same module from target memory and from its file gives the
// same answers").  goblin's header parsing and the C-string conversion are not the subject: the program
// headers are handed in (scripted), `read_name_from_strtab` is replaced by a logger; `read_segment`,
// the dynamic-entry iterator and the selection logic are real.
pub static mut PH_LOAD_OFF: u64 = 0;
pub static mut PH_LOAD_VADDR: u64 = 0;
pub static mut PH_LOAD_SIZE: u64 = 0;
pub static mut PH_DYN_OFF: u64 = 0;
pub static mut PH_DYN_VADDR: u64 = 0;
pub static mut STRTAB_LOG_N: usize = 0;
pub static mut STRTAB_LOG: (u64, u64, u64) = (0, 0, 0);

pub fn stub_read_program_headers<'buf>(_this: &mut ModuleReader<'buf>) -> Result<elf::ProgramHeaders, crate::errors::ModuleReaderError>
where
    'buf: 'buf,
{
    use goblin::elf::program_header::{ProgramHeader, PT_DYNAMIC, PT_LOAD};
    unsafe {
        let mut v: Vec<ProgramHeader> = Vec::with_capacity(3);
        // a first segment that does not contain the table (offset == vaddr, as in most files)
        v.push(ProgramHeader { p_type: PT_LOAD, p_flags: 4, p_offset: 0, p_vaddr: 0, p_paddr: 0, p_filesz: 16, p_memsz: 16, p_align: 16 });
        v.push(ProgramHeader { p_type: PT_LOAD, p_flags: 6, p_offset: PH_LOAD_OFF, p_vaddr: PH_LOAD_VADDR, p_paddr: PH_LOAD_VADDR, p_filesz: PH_LOAD_SIZE, p_memsz: PH_LOAD_SIZE, p_align: 16 });
        v.push(ProgramHeader { p_type: PT_DYNAMIC, p_flags: 6, p_offset: PH_DYN_OFF, p_vaddr: PH_DYN_VADDR, p_paddr: PH_DYN_VADDR, p_filesz: 64, p_memsz: 64, p_align: 8 });
        Ok(v)
    }
}
pub fn stub_read_name_log<'buf>(_this: &mut ModuleReader<'buf>, strtab_offset: u64, strtab_size: u64, name_offset: u64) -> Result<String, crate::errors::ModuleReaderError>
where
    'buf: 'buf,
{
    // the real function starts with `assert!(name_offset < strtab_size)`: a caller that lets a larger
    // offset through would panic there
    assert!(name_offset < strtab_size, "read_name_from_strtab is only called with an offset inside the table");
    unsafe {
        STRTAB_LOG_N += 1;
        STRTAB_LOG = (strtab_offset, strtab_size, name_offset);
    }
    Ok(String::with_capacity(1))
}
fn put_dyn(buf: &mut [u8], at: usize, tag: u64, val: u64) {
    buf[at..at + 8].copy_from_slice(&tag.to_le_bytes());
    buf[at + 8..at + 16].copy_from_slice(&val.to_le_bytes());
}

/// File image (128 bytes): dynamic section at file offset 16 (four entries); the second load segment
/// maps file offset `lo` to virtual address `lv` (symbolic, 16-byte granules); DT_STRTAB = `lv + d`.
#[kani::proof]
#[kani::unwind(10)]
#[kani::stub(crate::linux::module_reader::ModuleReader::read_program_headers, crate::verif::c14_module_reader::stub_read_program_headers)]
#[kani::stub(crate::linux::module_reader::ModuleReader::read_name_from_strtab, crate::verif::c14_module_reader::stub_read_name_log)]
#[kani::stub(std::fmt::format, crate::verif::env::stub_format)]
fn c14_soname_strtab_address_in_file() {
    let lo: u64 = kani::any();
    let lv: u64 = kani::any();
    let d: u64 = kani::any();
    let size: u64 = kani::any();
    let name: u64 = kani::any();
    kani::assume(lo % 16 == 0 && lo >= 80 && lo <= 96);
    kani::assume(lv % 16 == 0 && lv >= 0x1000 && lv <= 0x7fff_ffff_0000);
    kani::assume(d < 16 && size >= 1 && size <= 16 - d && name < size);
    let mut image = [0u8; 128];
    put_dyn(&mut image, 16, elf::dynamic::DT_STRTAB, lv + d);
    put_dyn(&mut image, 32, elf::dynamic::DT_STRSZ, size);
    put_dyn(&mut image, 48, elf::dynamic::DT_SONAME, name);
    put_dyn(&mut image, 64, elf::dynamic::DT_NULL, 0);
    unsafe {
        PH_LOAD_OFF = lo;
        PH_LOAD_VADDR = lv;
        PH_LOAD_SIZE = 32;
        PH_DYN_OFF = 16;
        PH_DYN_VADDR = 0x900;
        STRTAB_LOG_N = 0;
    }
    let header: elf::Header = unsafe { core::mem::zeroed() };
    let mut rd = ModuleReader::verif_from_parts(ProcessMemory::Slice(&image), header, Ctx::new(Container::Big, Endian::Little));
    let r = rd.soname_from_program_headers();
    assert!(r.is_ok(), "a well-formed dynamic section yields a SONAME");
    unsafe {
        assert_eq!(STRTAB_LOG_N, 1);
        assert_eq!(STRTAB_LOG.0, lo + d, "in a FILE the string table is read at the file offset of its virtual address");
        assert_eq!(STRTAB_LOG.1, size);
        assert_eq!(STRTAB_LOG.2, name);
    }
    kani::cover!(lo + d != lv + d, "file offset differs from the virtual address");
    core::mem::forget(r);
    core::mem::forget(rd);
}

/// C02: a DT_SONAME offset at or beyond DT_STRSZ (corrupt or hostile image) is an error, never a panic.
#[kani::proof]
#[kani::unwind(10)]
#[kani::stub(crate::linux::module_reader::ModuleReader::read_program_headers, crate::verif::c14_module_reader::stub_read_program_headers)]
#[kani::stub(crate::linux::module_reader::ModuleReader::read_name_from_strtab, crate::verif::c14_module_reader::stub_read_name_log)]
#[kani::stub(std::fmt::format, crate::verif::env::stub_format)]
fn c14_soname_offset_outside_table() {
    let size: u64 = kani::any();
    let name: u64 = kani::any();
    kani::assume(name >= size);
    let mut image = [0u8; 128];
    put_dyn(&mut image, 16, elf::dynamic::DT_STRTAB, 0x1000);
    put_dyn(&mut image, 32, elf::dynamic::DT_STRSZ, size);
    put_dyn(&mut image, 48, elf::dynamic::DT_SONAME, name);
    put_dyn(&mut image, 64, elf::dynamic::DT_NULL, 0);
    unsafe {
        PH_LOAD_OFF = 80;
        PH_LOAD_VADDR = 0x1000;
        PH_LOAD_SIZE = 32;
        PH_DYN_OFF = 16;
        PH_DYN_VADDR = 0x900;
        STRTAB_LOG_N = 0;
    }
    let header: elf::Header = unsafe { core::mem::zeroed() };
    let mut rd = ModuleReader::verif_from_parts(ProcessMemory::Slice(&image), header, Ctx::new(Container::Big, Endian::Little));
    let r = rd.soname_from_program_headers();
    assert!(r.is_err(), "no SONAME can be read from outside the string table");
    assert_eq!(unsafe { STRTAB_LOG_N }, 0, "the table is not consulted");
    kani::cover!(name == size, "offset == table size (boundary)");
    kani::cover!(name > size, "offset beyond the table");
    core::mem::forget(r);
    core::mem::forget(rd);
}
