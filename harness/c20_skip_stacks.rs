//! C20 - unreferenced-stack filtering keeps exactly the relevant stacks.
//! Enc: MappingInfo::stack_has_pointer_to_mapping, the inclusion test of
//! thread_list_stream::fill_thread_stack (through a forwarding shim).
use super::{env, util::*};
use crate::{
    linux::{
        maps_reader::{MappingInfo, SystemMappingInfo},
        minidump_writer::MinidumpWriter,
        sections::thread_list_stream,
    },
    mem_writer::Buffer,
    minidump_format::*,
};
use procfs_core::process::MMPermissions;

fn sym_principal() -> MappingInfo {
    let lo: usize = kani::any();
    let hi: usize = kani::any();
    kani::assume(lo < hi);
    MappingInfo {
        start_address: lo,
        size: hi - lo,
        system_mapping_info: SystemMappingInfo { start_address: lo, end_address: hi },
        offset: 0,
        permissions: MMPermissions::READ | MMPermissions::EXECUTE,
        name: None,
    }
}

/// reference: is there an aligned word at or above the (rounded-up) offset holding an address in [lo, hi)?
fn reference_hit(bytes: &[u8], sp_offset: usize, lo: usize, hi: usize) -> bool {
    let mut off = (sp_offset + 7) & !7;
    let mut hit = false;
    while off + 8 <= bytes.len() {
        let w = rd_u64(bytes, off) as usize;
        if lo <= w && w < hi {
            hit = true;
        }
        off += 8;
    }
    hit
}

fn scan<const LEN: usize>(sp_offset: usize) {
    let m = sym_principal();
    let bytes: [u8; LEN] = kani::any();
    let got = m.stack_has_pointer_to_mapping(&bytes, sp_offset);
    let want = reference_hit(&bytes, sp_offset, m.system_mapping_info.start_address, m.system_mapping_info.end_address);
    assert_eq!(got, want, "scan result == reference (half-open principal range)");
    kani::cover!(got, "a pointer into the principal mapping was found");
    kani::cover!(!got, "no pointer found");
    core::mem::forget(m);
}

macro_rules! scan_shape {
    ($name:ident, $len:expr, $off:expr) => {
        #[kani::proof]
        #[kani::unwind(7)]
        fn $name() {
            scan::<$len>($off);
        }
    };
}
scan_shape!(c20_scan_len24_off0, 24, 0);
scan_shape!(c20_scan_len24_off3, 24, 3);
scan_shape!(c20_scan_len24_off8, 24, 8);
scan_shape!(c20_scan_len16_off16, 16, 16);
scan_shape!(c20_scan_len8_off0, 8, 0);
scan_shape!(c20_scan_len20_off0, 20, 0);
scan_shape!(c20_scan_len32_off5, 32, 5);

/// Inclusion test of fill_thread_stack: stack kept <=> ip in [lo,hi) or the copy holds a pointer.
/// `SERVE` bytes come back from the (stubbed) copy; the SP sits `SPOFF` bytes into its page.
fn inclusion<const SERVE: usize>(spoff: usize, with_principal: bool) {
    env::copy_reset_long(SERVE, usize::MAX);
    // The stack mapping is concrete: with a symbolic one the Ok/Err outcome of get_stack_info is
    // symbolic and CBMC expands the drop glue of every DumperError variant (measured: 400 s vs 20 s).
    // Mapping geometry is C06's subject; here ip, principal range and stack bytes are symbolic.
    let k: usize = 0x7ffd_1234_5;
    let pages: usize = 8;
    let stack_map = mapping(k << 12, pages << 12, MMPermissions::READ | MMPermissions::WRITE, None);
    let sp = (k << 12) + spoff;
    let ip: usize = kani::any();
    let d = dumper(Vec::new(), vec![stack_map], 4096);
    let mut cfg = MinidumpWriter::new(4242, 4243);
    cfg.skip_stacks_if_mapping_unreferenced = true;
    let principal = sym_principal();
    let (lo, hi) = (principal.system_mapping_info.start_address, principal.system_mapping_info.end_address);
    if with_principal {
        cfg.principal_mapping = Some(principal);
    } else {
        core::mem::forget(principal);
    }
    let mut buf = Buffer::with_capacity(128);
    let pre: [u8; 3] = kani::any();
    buf.write_all(&pre);
    let mut thread = MDRawThread {
        thread_id: 4243,
        suspend_count: 0,
        priority_class: 0,
        priority: 0,
        teb: 0,
        stack: MDMemoryDescriptor::default(),
        thread_context: MDLocationDescriptor::default(),
    };
    let r = thread_list_stream::verif_fill_thread_stack(&mut cfg, &mut buf, &d, &mut thread, ip, sp, None);
    if let Err(e) = r {
        core::mem::forget(e);
        panic!("fill_thread_stack failed");
    }
    let served = unsafe { env::COPY_SERVED[0] };
    let data = unsafe { env::COPY_DATA[0] };
    assert_eq!(unsafe { env::COPY_N }, 1);
    assert_eq!(served, SERVE);
    let expect_in = with_principal && ((lo <= ip && ip < hi) || reference_hit(&data[..SERVE], spoff, lo, hi));
    if expect_in {
        assert_eq!(thread.stack.memory.data_size as usize, SERVE, "referenced stack is kept");
        assert_eq!(thread.stack.start_of_memory_range, (k << 12) as u64);
        assert_eq!(cfg.memory_blocks.len(), 1);
        assert_eq!(buf.len(), 3 + SERVE);
    } else {
        assert_eq!(thread.stack.memory.data_size, 0, "unreferenced stack is dropped");
        assert_eq!(cfg.memory_blocks.len(), 0);
        assert_eq!(buf.len(), 3, "no stack bytes in the image");
    }
    // the thread record itself is still meaningful
    assert!(thread.stack.memory.rva as usize <= buf.len());
    kani::cover!(expect_in && !(lo <= ip && ip < hi), "kept because of a stack word");
    kani::cover!(expect_in && (lo <= ip && ip < hi), "kept because of the instruction pointer");
    kani::cover!(!expect_in, "dropped");
    core::mem::forget(d);
    core::mem::forget(cfg);
}

macro_rules! incl_shape {
    ($name:ident, $serve:expr, $spoff:expr, $wp:expr) => {
        #[kani::proof]
        #[kani::unwind(7)]
        #[kani::stub(crate::linux::ptrace_dumper::PtraceDumper::copy_from_process, crate::verif::env::stub_copy_from_process)]
        #[kani::stub(std::fmt::format, crate::verif::env::stub_format)]
        fn $name() {
            inclusion::<$serve>($spoff, $wp);
        }
    };
}
incl_shape!(c20_incl_serve16_off0, 16, 0, true);
incl_shape!(c20_incl_serve24_off8, 24, 8, true);
incl_shape!(c20_incl_serve24_off5, 24, 5, true);
incl_shape!(c20_incl_no_principal, 16, 0, false);
