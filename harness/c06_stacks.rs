//! C06 (stacks contain the live stack), C07 (memory list), C04 (one record per thread with its own
//! registers), C05 (blamed thread / exception record).
//! Enc: PtraceDumper::get_stack_info, thread_list_stream::{write, fill_thread_stack},
//! app_memory::write, memory_list_stream::write, exception_stream::write.
use super::{c04_registers as regs, env, util::*};
use crate::{
    errors::DumperError,
    linux::{
        app_memory::AppMemory,
        maps_reader::MappingInfo,
        minidump_writer::{CrashingThreadContext, MinidumpWriter},
        ptrace_dumper::{PtraceDumper, Thread},
        sections::{app_memory, exception_stream, memory_list_stream, thread_list_stream},
    },
    mem_writer::Buffer,
    minidump_format::*,
    thread_info::ThreadInfo,
};
use procfs_core::process::MMPermissions;

const RW: MMPermissions = MMPermissions::READ.union(MMPermissions::WRITE);

fn sym_perms() -> MMPermissions {
    let b: u8 = kani::any();
    MMPermissions::from_bits_truncate(b & 0x1f)
}

// ------------------------------------------------------------------ get_stack_info (real)

/// Two ascending, disjoint, page-aligned mappings with symbolic permissions; SP anywhere.
fn gsi(shift: u32) {
    let ps = 1usize << shift;
    let k0: usize = kani::any();
    let p0: usize = kani::any();
    let gap: usize = kani::any();
    let p1: usize = kani::any();
    let lim = 1usize << (47 - shift);
    kani::assume(k0 >= 1 && k0 < lim && p0 >= 1 && p0 <= 64 && gap <= 64 && p1 >= 1 && p1 <= 64);
    let m0 = mapping(k0 << shift, p0 << shift, sym_perms(), None);
    let m1 = mapping((k0 + p0 + gap) << shift, p1 << shift, sym_perms(), None);
    let (m0c, m1c) = (m0.clone(), m1.clone());
    let d = dumper(Vec::new(), vec![m0, m1], ps);
    let sp: usize = kani::any();
    let r = d.get_stack_info(sp);
    let page = sp & !(ps - 1);
    let in0 = page >= m0c.start_address && page < m0c.start_address + m0c.size;
    let in1 = page >= m1c.start_address && page < m1c.start_address + m1c.size;
    let rw0 = m0c.permissions.intersects(RW);
    let rw1 = m1c.permissions.intersects(RW);
    match &r {
        Ok((v, len)) => {
            let (v, len) = (*v, *len);
            if (in0 && rw0) || (in1 && rw1) {
                let m = if in0 { &m0c } else { &m1c };
                assert_eq!(v, page, "stack pointer in a readable mapping: region starts on its page");
                assert_eq!(v + len, m.start_address + m.size, "and extends to the end of the mapping");
            } else {
                // guard page / unmapped: the region begins in a plausible stack mapping above, within reach
                assert!(v > page, "fallback region lies above the stack pointer's page");
                assert!(v - page <= 1024 * 1024 + ps, "within the guard distance");
                let inm0 = rw0 && v >= m0c.start_address && v < m0c.start_address + m0c.size;
                let inm1 = rw1 && v >= m1c.start_address && v < m1c.start_address + m1c.size;
                assert!(inm0 || inm1, "begins inside a readable/writable mapping");
                let m = if inm0 { &m0c } else { &m1c };
                assert_eq!(v + len, m.start_address + m.size);
                // first: no page-step address between page and v is in a plausible mapping
                let j: usize = kani::any();
                kani::assume(j >= 1 && j <= ((1024 * 1024) >> shift) + 1);
                let a = page.wrapping_add(j << shift);
                kani::assume(a > page && a < v);
                assert!(!(rw0 && a >= m0c.start_address && a < m0c.start_address + m0c.size));
                assert!(!(rw1 && a >= m1c.start_address && a < m1c.start_address + m1c.size));
            }
            assert!(len > 0);
        }
        Err(_) => {
            assert!(!((in0 && rw0) || (in1 && rw1)), "a stack pointer in a readable mapping always yields a region");
            // nothing plausible within the guard distance
            let j: usize = kani::any();
            kani::assume(j <= (1024 * 1024) >> shift);
            if let Some(a) = page.checked_add(j << shift) {
                assert!(!(rw0 && a >= m0c.start_address && a < m0c.start_address + m0c.size), "missed mapping 0");
                assert!(!(rw1 && a >= m1c.start_address && a < m1c.start_address + m1c.size), "missed mapping 1");
            }
        }
    }
    kani::cover!(r.is_ok() && ((in0 && rw0) || (in1 && rw1)), "SP inside a stack mapping");
    kani::cover!(r.is_ok() && !in0 && !in1, "SP unmapped, stack found above");
    kani::cover!(r.is_ok() && in0 && !rw0, "SP in a guard (no-access) mapping, stack found above");
    kani::cover!(r.is_err(), "no stack found");
    kani::cover!(sp > usize::MAX - 4096, "SP at the very top of the address space");
    core::mem::forget(r);
    core::mem::forget(d);
}

#[kani::proof]
#[kani::unwind(8)]
fn c06_get_stack_info_256k() {
    gsi(18);
}
#[kani::proof]
#[kani::unwind(20)]
fn c06_get_stack_info_64k() {
    gsi(16);
}
#[kani::proof]
#[kani::unwind(260)]
fn c06_get_stack_info_4k() {
    gsi(12);
}

// ------------------------------------------------------------------ stubs

/// Contract of get_stack_info for a stack pointer inside a plausible mapping (checked against the
/// real function by c06_get_stack_info_*): always Ok, so the caller's control flow stays concrete.
pub fn stub_get_stack_info_inmap(this: &PtraceDumper, sp: usize) -> Result<(usize, usize), DumperError> {
    let page = sp & !(this.page_size - 1);
    let m = &this.mappings[0];
    kani::assume(page >= m.start_address && page - m.start_address < m.size);
    Ok((page, m.size - (page - m.start_address)))
}
pub fn stub_get_stack_info_none(_this: &PtraceDumper, _sp: usize) -> Result<(usize, usize), DumperError> {
    Err(DumperError::NoStackPointerMapping)
}

pub static mut PROBE_LEVEL: usize = 9;
pub static mut PROBE_CONCRETE_TIDS: bool = false;
pub const MAXT: usize = 3;
pub static mut TI_N: usize = 0;
pub static mut TI_TID: [i32; MAXT] = [0; MAXT];
pub static mut TI_REGS: [[u64; 27]; MAXT] = [[0; 27]; MAXT];
pub static mut TI_XMM0: [u32; MAXT] = [0; MAXT];

/// Contract stub for ThreadInfo::create (ptrace GETREGS etc.): an arbitrary register file,
/// remembered per call so that "which thread's registers ended up where" is observable.
pub fn stub_thread_info_create(_pid: i32, tid: i32) -> Result<ThreadInfo, crate::errors::ThreadInfoError> {
    let info = regs::sym_thread_info();
    unsafe {
        let n = TI_N;
        assert!(n < MAXT);
        TI_TID[n] = tid;
        TI_REGS[n] = core::mem::transmute_copy(&info.regs);
        TI_XMM0[n] = info.fpregs.xmm_space[0];
        TI_N = n + 1;
    }
    Ok(info)
}

// ------------------------------------------------------------------ fill_thread_stack

fn sym_stack_mapping() -> MappingInfo {
    let k: usize = kani::any();
    let p: usize = kani::any();
    kani::assume(k >= 16 && k < (1usize << 35) && p >= 1 && p <= 64);
    mapping(k << 12, p << 12, RW, None)
}

fn new_thread(tid: u32) -> MDRawThread {
    MDRawThread {
        thread_id: tid,
        suspend_count: 0,
        priority_class: 0,
        priority: 0,
        teb: 0,
        stack: MDMemoryDescriptor::default(),
        thread_context: MDLocationDescriptor::default(),
    }
}

/// Request + record oracle for one stack. SERVE bytes come back from the copy.
fn fts(cap: Option<usize>) {
    const SERVE: usize = 16;
    env::copy_reset_long(SERVE, usize::MAX);
    let m = sym_stack_mapping();
    let (ms, me) = (m.start_address, m.start_address + m.size);
    let d = dumper(Vec::new(), vec![m], 4096);
    let sp: usize = kani::any();
    kani::assume(sp >= ms && sp < me);
    let mut cfg = MinidumpWriter::new(4242, 4243);
    let mut buf = Buffer::with_capacity(64);
    let pre: [u8; 3] = kani::any();
    buf.write_all(&pre);
    let mut thread = new_thread(4243);
    let r = thread_list_stream::verif_fill_thread_stack(&mut cfg, &mut buf, &d, &mut thread, kani::any(), sp, cap);
    if let Err(e) = r {
        core::mem::forget(e);
        panic!("fill_thread_stack failed");
    }
    let (n, src, len) = unsafe { (env::COPY_N, env::COPY_SRC[0], env::COPY_LEN[0]) };
    assert_eq!(n, 1, "exactly one read of target memory");
    assert_eq!(unsafe { env::COPY_PID[0] }, 4243, "read through the thread's own id");
    let page = sp & !4095;
    match cap {
        None => {
            assert_eq!(src, page, "unshortened: starts on the page of the stack pointer");
            assert_eq!(src + len, me, "unshortened: extends to the end of the mapping");
        }
        Some(c) => {
            assert!(len <= c, "shortened to at most the cap");
            assert!(src <= sp, "shortened: starts no higher than the stack pointer");
            assert!(src >= page);
            assert!(src + len <= me, "never beyond the mapping");
        }
    }
    assert!(src <= sp && sp < src + len, "the captured range contains the stack pointer");
    // record and bytes
    assert_eq!(thread.stack.start_of_memory_range, src as u64);
    assert_eq!(thread.stack.memory.data_size as usize, SERVE);
    assert_eq!(thread.stack.memory.rva, 3);
    assert_eq!(buf.len(), 3 + SERVE);
    let i: usize = kani::any();
    kani::assume(i < SERVE);
    assert_eq!(buf[3 + i], unsafe { env::COPY_DATA[0][i] }, "stack bytes equal target memory");
    assert_eq!(cfg.memory_blocks.len(), 1, "non-empty stack is also a memory-list region");
    assert_eq!(cfg.memory_blocks[0].start_of_memory_range, src as u64);
    assert_eq!(cfg.memory_blocks[0].memory.rva, 3);
    assert_eq!(cfg.memory_blocks[0].memory.data_size as usize, SERVE);
    kani::cover!(sp - page >= 2048, "stack pointer in the upper half of its page");
    kani::cover!(sp - page < 2048 && me - page > 4096, "stack pointer in the lower half, multi-page stack");
    core::mem::forget(d);
    core::mem::forget(cfg);
}

macro_rules! fts_shape {
    ($name:ident, $cap:expr) => {
        #[kani::proof]
        #[kani::unwind(5)]
        #[kani::stub(crate::linux::ptrace_dumper::PtraceDumper::copy_from_process, crate::verif::env::stub_copy_from_process)]
        #[kani::stub(crate::linux::ptrace_dumper::PtraceDumper::get_stack_info, crate::verif::c06_stacks::stub_get_stack_info_inmap)]
        #[kani::stub(std::fmt::format, crate::verif::env::stub_format)]
        #[kani::stub(std::vec::Vec::resize, crate::verif::env::stub_vec_resize)]
        fn $name() {
            fts($cap);
        }
    };
}
fts_shape!(c06_fill_stack_uncapped, None);
fts_shape!(c06_fill_stack_capped_2k, Some(2048));

/// Stack pointer in no plausible mapping: the record is empty (and nothing is read).
#[kani::proof]
#[kani::unwind(5)]
#[kani::stub(crate::linux::ptrace_dumper::PtraceDumper::copy_from_process, crate::verif::env::stub_copy_from_process)]
#[kani::stub(crate::linux::ptrace_dumper::PtraceDumper::get_stack_info, crate::verif::c06_stacks::stub_get_stack_info_none)]
#[kani::stub(std::fmt::format, crate::verif::env::stub_format)]
fn c06_fill_stack_unmapped() {
    env::copy_reset(16, usize::MAX);
    let d = dumper(Vec::new(), Vec::new(), 4096);
    let sp: usize = kani::any();
    let mut cfg = MinidumpWriter::new(4242, 4243);
    let mut buf = Buffer::with_capacity(16);
    let mut thread = new_thread(4243);
    let r = thread_list_stream::verif_fill_thread_stack(&mut cfg, &mut buf, &d, &mut thread, kani::any(), sp, None);
    assert!(r.is_ok());
    assert_eq!(unsafe { env::COPY_N }, 0);
    assert_eq!(thread.stack.memory.data_size, 0, "empty region");
    assert_eq!(thread.stack.start_of_memory_range, sp as u64);
    assert_eq!(cfg.memory_blocks.len(), 0);
    assert_eq!(buf.len(), 0);
    kani::cover!(sp != 0, "reached");
    core::mem::forget(r);
    core::mem::forget(d);
    core::mem::forget(cfg);
}

// ------------------------------------------------------------------ thread_list_stream::write

const CTX: usize = 1232;

/// NT threads; `crash`: a crash context is supplied and blames thread index `blamed` (None: the
/// blamed tid is not in the list); `limit`: minidump size limit.  Observations are taken from the
/// ghost logs (copy requests, contexts serialized, records stored), not from image bytes.
fn tls<const NT: usize>(crash: bool, blamed: Option<usize>, limit: Option<u64>, with_exception: bool) {
    const SERVE: usize = 16;
    env::copy_reset_long(SERVE, usize::MAX);
    unsafe {
        TI_N = 0;
        env::CTX_N = 0;
        env::THREAD_SETS = 0;
    }
    let m = sym_stack_mapping();
    let (ms, me) = (m.start_address, m.start_address + m.size);
    let mut tids = [0i32; NT];
    let mut threads = Vec::with_capacity(NT);
    for i in 0..NT {
        tids[i] = kani::any();
        kani::assume(tids[i] > 0);
        for j in 0..i {
            kani::assume(tids[i] != tids[j]);
        }
        threads.push(Thread { tid: tids[i], name: None });
    }
    let d = dumper(threads, vec![m], 4096);
    let blamed_tid: i32 = match blamed {
        Some(b) => tids[b],
        None => {
            let t: i32 = kani::any();
            kani::assume(t > 0);
            for j in 0..NT {
                kani::assume(t != tids[j]);
            }
            t
        }
    };
    let mut cfg = MinidumpWriter::new(4242, blamed_tid);
    cfg.minidump_size_limit = limit;
    let mut crash_regs = [0i64; 23];
    let mut crash_xmm0 = 0u32;
    let mut ssi = (0u32, 0i32, 0u64);
    if crash {
        let cc = regs::sym_crash_context();
        crash_regs = cc.inner.context.uc_mcontext.gregs;
        crash_xmm0 = cc.inner.float_state.xmm_space[0];
        ssi = (cc.inner.siginfo.ssi_signo, cc.inner.siginfo.ssi_code, cc.inner.siginfo.ssi_addr);
        cfg.crash_context = Some(cc);
    }
    let mut buf = Buffer::with_capacity(8 + NT * (48 + CTX + 2 * SERVE) + 200);
    let pre: [u8; 3] = kani::any();
    buf.write_all(&pre);
    let res = thread_list_stream::write(&mut cfg, &mut buf, &d);
    let dirent = match res {
        Ok(x) => x,
        Err(e) => {
            core::mem::forget(e);
            panic!("thread_list_stream::write failed");
        }
    };
    assert_eq!(dirent.stream_type, MDStreamType::ThreadListStream as u32);
    assert_eq!(dirent.location.rva, 3);
    assert_eq!(dirent.location.data_size as usize, 4 + 48 * NT, "size == count header + one record per thread");
    assert_eq!(unsafe { env::THREAD_SETS }, NT, "exactly one record stored per retained thread");
    assert_eq!(unsafe { env::CTX_N }, NT, "exactly one context serialized per thread");
    let ip = crash_regs[16] as u64 as usize;
    let in_map = crash && blamed.is_some() && ip >= ms && ip < me;
    // layout is a function of the shape: after the list, per thread: stack bytes, [ip window], context
    let mut cursor = 3 + 4 + 48 * NT;
    let mut call = 0usize; // copy_from_process call index == memory_blocks index
    let mut tcall = 0usize; // ThreadInfo::create call index
    let mut ctx_rva_of = [0usize; NT];
    for t in 0..NT {
        let is_crash_thread = crash && blamed == Some(t);
        let rec = match unsafe { &env::THREAD_LOG[t] } {
            Some(r) => r,
            None => panic!("no record stored at index t"),
        };
        assert_eq!(rec.thread_id, tids[t] as u32, "record t carries thread t's id");
        assert_eq!(rec.stack.memory.data_size as usize, SERVE, "stack size == bytes read");
        assert_eq!(rec.stack.memory.rva as usize, cursor, "stack bytes directly follow what was written before");
        let stack_start = rec.stack.start_of_memory_range as usize;
        assert_eq!(unsafe { env::COPY_SRC[call] }, stack_start, "recorded range start == what was read");
        assert_eq!(unsafe { env::COPY_PID[call] }, tids[t], "read through the thread's own id");
        assert_eq!(unsafe { env::COPY_SRC[call] + env::COPY_LEN[call] }, me, "unshortened stack extends to the mapping end");
        assert_eq!(cfg.memory_blocks[call].start_of_memory_range, stack_start as u64, "stack is a memory-list region");
        assert_eq!(cfg.memory_blocks[call].memory.rva as usize, cursor);
        assert_eq!(cfg.memory_blocks[call].memory.data_size as usize, SERVE);
        cursor += SERVE;
        call += 1;
        let (want_rip, want_rsp, want_rax, want_r15, want_rsi, want_xmm0);
        if is_crash_thread {
            want_rip = crash_regs[16] as u64;
            want_rsp = crash_regs[15] as u64;
            want_rax = crash_regs[13] as u64;
            want_r15 = crash_regs[7] as u64;
            want_rsi = crash_regs[9] as u64;
            want_xmm0 = crash_xmm0;
            // IP window (C07): request == [max(start, ip-128), min(end, ip+128)) iff the ip is in a mapping
            if in_map {
                let lo = if ip - ms >= 128 { ip - 128 } else { ms };
                let hi = if me - ip >= 128 { ip + 128 } else { me };
                assert_eq!(unsafe { env::COPY_SRC[call] }, lo, "window starts 128 bytes before the ip, clipped to the mapping");
                assert_eq!(unsafe { env::COPY_LEN[call] }, hi - lo, "window ends 128 bytes after the ip, clipped to the mapping");
                assert_eq!(cfg.memory_blocks[call].start_of_memory_range, lo as u64, "the window is a memory-list region");
                assert_eq!(cfg.memory_blocks[call].memory.rva as usize, cursor);
                assert_eq!(cfg.memory_blocks[call].memory.data_size as usize, SERVE, "region size == bytes read");
                kani::cover!(ip - ms < 128, "window clipped at the mapping start");
                kani::cover!(me - ip < 128, "window clipped at the mapping end");
            }
            // (only shapes whose crash thread is the last record are instantiated, so offsets of
            //  earlier records do not depend on the optional window)
            assert_eq!(unsafe { env::COPY_N }, if in_map { NT + 1 } else { NT });
            assert_eq!(unsafe { env::CTX_FLAGS[t] }, 0x0010_0000 | 0x1 | 0x2 | 0x8);
        } else {
            let r = unsafe { TI_REGS[tcall] };
            assert_eq!(unsafe { TI_TID[tcall] }, tids[t], "registers were fetched for this thread id");
            want_xmm0 = unsafe { TI_XMM0[tcall] };
            tcall += 1;
            // user_regs_struct: r15=0 ... rax=10 ... rsi=13 ... rip=16 ... rsp=19
            want_rip = r[16];
            want_rsp = r[19];
            want_rax = r[10];
            want_r15 = r[0];
            want_rsi = r[13];
        }
        let ctx_rva = if is_crash_thread && in_map { cursor + SERVE } else { cursor };
        assert_eq!(rec.thread_context.data_size as usize, CTX, "context size");
        if is_crash_thread {
            assert!(rec.thread_context.rva as usize == ctx_rva, "context directly follows the thread's memory");
        } else {
            assert_eq!(rec.thread_context.rva as usize, ctx_rva, "context directly follows the thread's memory");
        }
        // contexts are serialized in record order
        let c = unsafe { env::CTX_LOG[t] };
        assert_eq!(c[0], want_rip, "context of record t holds thread t's rip");
        assert_eq!(c[1], want_rsp, "... rsp");
        assert_eq!(c[2], want_rax, "... rax");
        assert_eq!(c[3], want_r15, "... r15");
        assert_eq!(c[4], want_rsi, "... rsi");
        assert_eq!(unsafe { env::CTX_XMM0[t] }, want_xmm0, "... xmm0 low lane");
        ctx_rva_of[t] = ctx_rva;
        assert_eq!(stack_start, (want_rsp as usize) & !4095, "stack region starts on the page of the stack pointer");
        cursor += CTX;
    }
    if !(crash && blamed.is_some()) {
        assert_eq!(unsafe { env::COPY_N }, NT);
        assert_eq!(cfg.memory_blocks.len(), NT);
        assert_eq!(buf.len(), cursor);
    } else {
        assert_eq!(cfg.memory_blocks.len(), if in_map { NT + 1 } else { NT });
        assert_eq!(buf.len(), if in_map { cursor + SERVE } else { cursor });
        kani::cover!(!in_map, "ip outside every mapping");
    }
    // crashing-thread bookkeeping
    match (&cfg.crashing_thread_context, crash, blamed) {
        (CrashingThreadContext::CrashContext(loc), true, Some(b)) => {
            assert_eq!(loc.rva as usize, ctx_rva_of[b], "exception context is the blamed thread's context");
            assert_eq!(loc.data_size as usize, CTX);
        }
        (CrashingThreadContext::CrashContextPlusAddress((loc, addr)), false, Some(b)) => {
            assert_eq!(loc.rva as usize, ctx_rva_of[b]);
            assert_eq!(loc.data_size as usize, CTX);
            assert_eq!(*addr as u64, unsafe { env::CTX_LOG[b][0] }, "crash address == blamed thread's current rip");
        }
        (CrashingThreadContext::None, _, None) => {}
        _ => panic!("crashing thread context does not match the configuration"),
    }
    if with_exception {
        // the exception stream is small: write it to a fresh buffer and read it back
        let mut xb = Buffer::with_capacity(256);
        let er = exception_stream::write(&mut cfg, &mut xb);
        let ed = match er {
            Ok(x) => x,
            Err(e) => {
                core::mem::forget(e);
                panic!("exception_stream::write failed");
            }
        };
        assert_eq!(ed.stream_type, MDStreamType::ExceptionStream as u32);
        assert_eq!(ed.location.rva, 0);
        assert_eq!(ed.location.data_size, 168);
        assert_eq!(xb.len(), 168);
        assert_eq!(rd_u32(&xb, 0), blamed_tid as u32, "exception names the blamed thread");
        // MINIDUMP_EXCEPTION at +8: code, flags, record(u64), address(u64)
        if crash {
            assert_eq!(rd_u32(&xb, 8), ssi.0, "signal number");
            assert_eq!(rd_u32(&xb, 12), ssi.1 as u32, "signal code");
            assert_eq!(rd_u64(&xb, 24), ssi.2, "fault address");
        } else {
            assert_eq!(rd_u32(&xb, 8), 0xFFFFFFFF, "DUMP_REQUESTED");
            assert_eq!(rd_u32(&xb, 12), 0);
            match blamed {
                Some(b) => assert_eq!(rd_u64(&xb, 24), unsafe { env::CTX_LOG[b][0] }, "address == blamed thread's instruction pointer"),
                None => assert_eq!(rd_u64(&xb, 24), 0),
            }
        }
        // thread_context location at +160
        let xsize = rd_u32(&xb, 160);
        let xrva = rd_u32(&xb, 164);
        match blamed {
            Some(b) => {
                assert_eq!(xrva as usize, ctx_rva_of[b], "exception context == blamed thread's context");
                assert_eq!(xsize as usize, CTX);
            }
            None => assert!(xsize == 0 && xrva == 0, "no context when the blamed thread is not listed"),
        }
    }
    kani::cover!(true, "end reached");
    core::mem::forget(d);
    core::mem::forget(cfg);
}

macro_rules! tls_shape {
    ($name:ident, $nt:expr, $crash:expr, $blamed:expr, $limit:expr, $exc:expr) => {
        #[kani::proof]
        #[kani::unwind(6)]
        #[kani::stub(crate::linux::ptrace_dumper::PtraceDumper::copy_from_process, crate::verif::env::stub_copy_from_process)]
        #[kani::stub(crate::linux::ptrace_dumper::PtraceDumper::get_stack_info, crate::verif::c06_stacks::stub_get_stack_info_inmap)]
        #[kani::stub(crate::linux::thread_info::x86::ThreadInfoX86::create, crate::verif::c06_stacks::stub_thread_info_create)]
        #[kani::stub(<&minidump_common::format::CONTEXT_AMD64 as scroll::ctx::TryIntoCtx<scroll::Endian>>::try_into_ctx, crate::verif::env::stub_context_log)]
        #[kani::stub(crate::mem_writer::MemoryArrayWriter::set_value_at, crate::verif::env::stub_set_value_at_log)]
        #[kani::stub(std::fmt::format, crate::verif::env::stub_format)]
        #[kani::stub(std::vec::Vec::resize, crate::verif::env::stub_vec_resize)]
        fn $name() {
            tls::<$nt>($crash, $blamed, $limit, $exc);
        }
    };
}
tls_shape!(c04_tl_1thread_requested, 1, false, Some(0), None, true);
tls_shape!(c04_tl_1thread_crash, 1, true, Some(0), None, true);
tls_shape!(c04_tl_2threads_crash_second, 2, true, Some(1), None, true);
tls_shape!(c04_tl_2threads_crash_second_limit, 2, true, Some(1), Some(1), false);
tls_shape!(c04_tl_2threads_requested_absent, 2, false, None, None, true);
tls_shape!(c04_tl_2threads_crash_absent, 2, true, None, None, true);
tls_shape!(c04_tl_2threads_requested_first, 2, false, Some(0), Some(1), true);
tls_shape!(c04_tl_3threads_requested_mid, 3, false, Some(1), Some(1), false);
