//! Shared helpers: image decoding, dumper construction, ghost statics.
use crate::{
    linux::{
        auxv::AuxvDumpInfo,
        maps_reader::{MappingInfo, SystemMappingInfo},
        ptrace_dumper::{PtraceDumper, Thread},
    },
    mem_writer::Buffer,
};
use procfs_core::process::MMPermissions;

#[inline]
pub fn rd_u16(b: &[u8], off: usize) -> u16 {
    u16::from_le_bytes([b[off], b[off + 1]])
}
#[inline]
pub fn rd_u32(b: &[u8], off: usize) -> u32 {
    u32::from_le_bytes([b[off], b[off + 1], b[off + 2], b[off + 3]])
}
#[inline]
pub fn rd_u64(b: &[u8], off: usize) -> u64 {
    u64::from_le_bytes([
        b[off],
        b[off + 1],
        b[off + 2],
        b[off + 3],
        b[off + 4],
        b[off + 5],
        b[off + 6],
        b[off + 7],
    ])
}

pub fn dumper(threads: Vec<Thread>, mappings: Vec<MappingInfo>, page_size: usize) -> PtraceDumper {
    PtraceDumper::verif_new(4242, threads, mappings, false, page_size, AuxvDumpInfo::default())
}

pub fn mapping(start: usize, size: usize, perms: MMPermissions, name: Option<&str>) -> MappingInfo {
    MappingInfo {
        start_address: start,
        size,
        system_mapping_info: SystemMappingInfo {
            start_address: start,
            end_address: start.wrapping_add(size),
        },
        offset: 0,
        permissions: perms,
        name: name.map(|s| s.into()),
    }
}

/// half-open interval disjointness
#[inline]
pub fn disjoint(a: usize, alen: usize, b: usize, blen: usize) -> bool {
    a + alen <= b || b + blen <= a
}
