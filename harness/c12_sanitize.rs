//! C12 - stack sanitization lets only pointers and small integers survive.
//! Enc: PtraceDumper::sanitize_stack_copy (+ find_mapping_no_bias, contains_address, is_executable).
use super::util::*;
use crate::linux::maps_reader::MappingInfo;
use procfs_core::process::MMPermissions;

const DEFACED: u64 = 0x0defaced0defaced;

/// A symbolic page-aligned mapping of 1..=1024 pages below 2^47.
pub fn sym_mapping(max_pages: usize) -> MappingInfo {
    let k: u64 = kani::any();
    kani::assume(k >= 16 && k < (1u64 << 35));
    let p: usize = kani::any();
    kani::assume(p >= 1 && p <= max_pages);
    let bits: u8 = kani::any();
    let perms = MMPermissions::from_bits_truncate(bits & 0x1f);
    mapping((k as usize) << 12, p << 12, perms, Some("/m"))
}

fn reference_keep(w: u64, stack_map: Option<&MappingInfo>, maps: &[MappingInfo]) -> bool {
    let s = w as i64;
    if s >= -4096 && s <= 4096 {
        return true;
    }
    if let Some(m) = stack_map {
        if m.system_mapping_info.start_address as u64 <= w && w < m.system_mapping_info.end_address as u64 {
            return true;
        }
    }
    // first mapping (in list order) whose kernel range contains w decides
    for m in maps {
        if m.system_mapping_info.start_address as u64 <= w && w < m.system_mapping_info.end_address as u64 {
            return m.permissions.contains(MMPermissions::EXECUTE);
        }
    }
    false
}

fn check<const LEN: usize, const NMAPS: usize>(sp_offset: usize, max_pages: usize) {
    let mut maps: Vec<MappingInfo> = Vec::with_capacity(NMAPS);
    for _ in 0..NMAPS {
        maps.push(sym_mapping(max_pages));
    }
    // pairwise disjoint (what aggregate() produces, C13)
    for i in 0..NMAPS {
        for j in 0..i {
            kani::assume(
                maps[i].start_address + maps[i].size <= maps[j].start_address
                    || maps[j].start_address + maps[j].size <= maps[i].start_address,
            );
        }
    }
    let maps_ref = maps.clone();
    let d = dumper(Vec::new(), maps, 4096);
    let stack_pointer: usize = kani::any();
    let input: [u8; LEN] = kani::any();
    let mut copy = input.to_vec();
    let res = d.sanitize_stack_copy(&mut copy, stack_pointer, sp_offset);
    if let Err(e) = res {
        core::mem::forget(e);
        panic!("sanitize_stack_copy returned an error");
    }
    assert_eq!(copy.len(), LEN, "region keeps its length");
    let off = (sp_offset + 7) & !7;
    let zero_to = if off < LEN { off } else { LEN };
    let nwords = if off < LEN { (LEN - off) / 8 } else { 0 };
    // witness byte
    let b: usize = kani::any();
    kani::assume(b < LEN);
    if b < zero_to {
        assert_eq!(copy[b], 0, "bytes below the stack pointer are zero");
    } else if b >= off + 8 * nwords {
        assert_eq!(copy[b], 0, "trailing partial word is zero");
    } else {
        let wi = (b - off) / 8;
        let at = off + 8 * wi;
        let w_in = rd_u64(&input, at);
        let w_out = rd_u64(&copy, at);
        let stack_map = maps_ref
            .iter()
            .find(|m| m.system_mapping_info.start_address <= stack_pointer && stack_pointer < m.system_mapping_info.end_address);
        if reference_keep(w_in, stack_map, &maps_ref) {
            assert_eq!(w_out, w_in, "a qualifying word is left unchanged");
        } else {
            assert_eq!(w_out, DEFACED, "a non-qualifying word is replaced by the sentinel");
        }
        kani::cover!(w_out == w_in && w_in > 4096 && (w_in as i64) > 0, "a pointer survived");
        kani::cover!(w_out == DEFACED && w_in != DEFACED, "a word was defaced");
        kani::cover!((w_in as i64) < 0 && (w_in as i64) >= -4096, "negative small integer seen");
    }
    kani::cover!(true, "end reached");
    core::mem::forget(d);
    core::mem::forget(maps_ref);
}

macro_rules! shape {
    ($name:ident, $len:expr, $nm:expr, $off:expr, $pages:expr) => {
        #[kani::proof]
        #[kani::unwind(10)]
        fn $name() {
            check::<$len, $nm>($off, $pages);
        }
    };
}
// (length, sp_offset) shapes of DESIGN.md C12
shape!(c12_len16_off0_m2, 16, 2, 0, 1024);
shape!(c12_len24_off8_m2, 24, 2, 8, 1024);
shape!(c12_len24_off3_m2, 24, 2, 3, 1024);
shape!(c12_len20_off0_m2, 20, 2, 0, 1024);
shape!(c12_len8_off16_m1, 8, 1, 16, 1024);
shape!(c12_len12_off12_m1, 12, 1, 12, 1024);
shape!(c12_len16_off0_m3, 16, 3, 0, 1024);
shape!(c12_len32_off0_m2, 32, 2, 0, 1024);

/// zero-length copy
#[kani::proof]
#[kani::unwind(10)]
fn c12_len0() {
    let d = dumper(Vec::new(), vec![sym_mapping(1024)], 4096);
    let mut copy: Vec<u8> = Vec::new();
    let so: usize = 5;
    let r = d.sanitize_stack_copy(&mut copy, kani::any(), so);
    assert!(r.is_ok());
    assert!(copy.is_empty());
    kani::cover!(r.is_ok(), "nonzero offset on empty copy");
    core::mem::forget(r);
    core::mem::forget(d);
}

/// Two executable mappings whose addresses alias in the 2 MiB-bucket pre-filter (4 GiB apart):
/// the filter must not cause a pointer into the second one to be dropped or a non-pointer kept.
#[kani::proof]
#[kani::unwind(10)]
fn c12_bucket_alias() {
    let a = mapping(0x7f00_0000_0000, 0x3000, MMPermissions::READ | MMPermissions::EXECUTE, Some("/a"));
    let b = mapping(0x7f01_0000_0000, 0x2000, MMPermissions::READ, Some("/b"));
    let maps_ref = vec![a.clone(), b.clone()];
    let d = dumper(Vec::new(), vec![a, b], 4096);
    let input: [u8; 16] = kani::any();
    let mut copy = input.to_vec();
    let r = d.sanitize_stack_copy(&mut copy, 0x1000, 0);
    assert!(r.is_ok());
    let wi: usize = kani::any();
    kani::assume(wi < 2);
    let w_in = rd_u64(&input, 8 * wi);
    let w_out = rd_u64(&copy, 8 * wi);
    if reference_keep(w_in, None, &maps_ref) {
        assert_eq!(w_out, w_in);
    } else {
        assert_eq!(w_out, DEFACED);
    }
    kani::cover!(w_in >= 0x7f01_0000_0000 && w_in < 0x7f01_0000_2000, "pointer into the aliasing non-executable mapping");
    kani::cover!(w_in >= 0x7f00_0000_0000 && w_in < 0x7f00_0000_3000 && w_out == w_in, "pointer into executable mapping kept");
    core::mem::forget(r);
    core::mem::forget(d);
    core::mem::forget(maps_ref);
}
